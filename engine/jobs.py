"""jobs.py - one Job = one harness build + one CBMC query (+ witness twin, + native replay)."""
import json, os, re, shutil, time
from . import core

HARNESS = os.path.join(core.VERIF, "harness")
MODELS = os.path.join(core.VERIF, "models")

# pointer checks etc. that are CBMC built-ins: description prefixes
MEMCHK_RE = re.compile(r"dereference failure|array bounds|pointer relation|pointer arithmetic|"
                       r"lower bound|upper bound|memcpy|memmove|memset|free argument|double free|"
                       r"same object violation|NaN|division by zero|overflow|shift|memory-leak|pointer primitive|"
                       r"precondition")


NATIVE_SUPPORT = ["src/str/safe_str_constraint.c", "src/mem/safe_mem_constraint.c", "src/ignore_handler_s.c",
                  "src/str/strnlen_s.c", "src/mem/mem_primitives_lib.c"]


class Job:
    def __init__(self, jid, prop, harness, repo_files, defines=(), variant="slack", models=("libc_models.c",),
                 unwind_rules=(), unwind_default=None, cbmc_flags=(), timeout=120, mem_gb=8,
                 memchecks=False, fn=None, bounds=None, exclude=None, only=None, witness=None,
                 extra_sources=(), ptrorder=True, repo_defines=(), remove_bodies=(), object_bits=None, harness_unwind=400, retry_unwind=None, native_models=()):
        self.jid = jid
        self.prop = prop
        self.harness = harness            # file name under harness/
        self.repo_files = list(repo_files)
        self.defines = list(defines)
        self.variant = variant
        self.models = list(models)
        self.unwind_rules = list(unwind_rules)
        self.unwind_default = unwind_default
        self.cbmc_flags = list(cbmc_flags)
        self.timeout = timeout
        self.mem_gb = mem_gb
        self.memchecks = memchecks        # pointer-check failures count as violations of this property
        self.fn = fn or jid
        self.bounds = bounds or {}
        self.exclude = exclude            # C expression: known-finding inputs assumed away
        self.only = only                  # C expression: restrict to the known-finding inputs
        self.witness = witness
        self.extra_sources = list(extra_sources)
        self.ptrorder = ptrorder
        self.repo_defines = list(repo_defines)
        self.remove_bodies = list(remove_bodies)
        self.object_bits = object_bits
        self.harness_unwind = harness_unwind
        self.retry_unwind = retry_unwind
        self.native_models = list(native_models)

    def all_defines(self, witness=False):
        d = ["-DPROP_%s" % self.prop] + list(self.defines)
        if self.variant == "noslack":
            d.append("-DNOSLACK")
        if self.exclude:
            d.append("-DVH_EXCLUDE=(%s)" % self.exclude)
        if self.only:
            d.append("-DVH_ONLY=(%s)" % self.only)
        if witness:
            d.append("-DWITNESS")
        return d

    def build(self, witness=False):
        sc = core.scratch()
        tag = re.sub(r"[^A-Za-z0-9_.-]", "_", self.jid) + ("_w" if witness else "")
        out = os.path.join(sc, "gb", tag + ".gb")
        os.makedirs(os.path.dirname(out), exist_ok=True)
        objs = [core.compile_repo_obj(f, self.variant, self.repo_defines, self.ptrorder) for f in self.repo_files]
        srcs = [os.path.join(HARNESS, self.harness)] + [os.path.join(MODELS, m) for m in self.models] + self.extra_sources
        extra_inc = sorted({os.path.dirname(os.path.join(core.REPO, f)) for f in self.repo_files})
        core.link_gb(out, objs, srcs, self.variant, self.all_defines(witness), extra_inc)
        if self.remove_bodies:
            out2 = out[:-3] + ".rb.gb"
            cmd = ["goto-instrument"]
            for b in self.remove_bodies:
                cmd += ["--remove-function-body", b]
            r = core.run(cmd + [out, out2], timeout=120)
            if r["rc"] != 0:
                raise core.BuildError("remove-function-body failed: " + r["err"][-500:])
            out = out2
        return out

    def flags(self):
        fl = list(self.cbmc_flags)
        if not self.memchecks:
            fl += ["--no-standard-checks"]
        else:
            fl += ["--no-malloc-may-fail"] if "--malloc-may-fail" not in fl else []
        if self.object_bits:
            fl += ["--object-bits", str(self.object_bits)]
        return fl

    def run(self, with_witness=False, _retry=False):
        """Returns dict: verdict in {HOLDS, FAILED, INCONCLUSIVE, ERROR}, failures[], secs, ..."""
        t0 = time.time()
        res = {"job": self.jid, "fn": self.fn, "prop": self.prop, "variant": self.variant, "bounds": self.bounds,
               "failures": [], "other_failures": [], "verdict": None, "note": ""}
        try:
            gb = self.build()
        except core.BuildError as e:
            res.update(verdict="ERROR", note=str(e)[-1500:], secs=round(time.time() - t0, 2))
            return res
        us = None
        if self.unwind_rules or self.unwind_default is not None:
            rules = self.unwind_rules + [(r"^(main|vh_\w+)\.", self.harness_unwind)]
            us = core.unwindset_for(gb, rules, self.unwind_default if self.unwind_default is not None else 2)
        res["unwindset_n"] = len(us or [])
        r = core.run_cbmc(gb, self.flags(), unwindset=us, timeout=self.timeout, mem_gb=self.mem_gb)
        res["cbmc_secs"] = r["secs"]
        res["cmd"] = r["cmd"]
        if r["status"] in ("TIMEOUT", "ERROR"):
            res.update(verdict="INCONCLUSIVE", note="%s %s" % (r["status"], (r["error"] or "")[:600]),
                       secs=round(time.time() - t0, 2))
            return res
        nprops = len(r["props"])
        unwind_fail = []
        for p in r["props"]:
            if p.get("status") != "FAILURE":
                continue
            desc = p.get("description", "")
            if desc.startswith("MODEL:"):
                unwind_fail.append("model-precondition:" + desc)
                continue
            if "unwinding assertion" in desc:
                unwind_fail.append(p.get("property"))
                if "unwind_cex" not in res:
                    res["unwind_cex"] = {"property": p.get("property"), "description": desc, "loc": _loc(p),
                                         "inputs": core.trace_inputs(p)}
                continue
            mine = desc.startswith(self.prop + ":")
            mem = self.memchecks and not re.match(r"C\d\d:", desc) and not desc.startswith("WITNESS")
            rec = {"property": p.get("property"), "description": desc,
                   "loc": _loc(p), "inputs": core.trace_inputs(p)}
            if mine or mem:
                res["failures"].append(rec)
            else:
                rec.pop("inputs")
                res["other_failures"].append(rec)
        res["n_properties"] = nprops
        if unwind_fail and self.retry_unwind and not _retry and not any(u.startswith("model-precondition") for u in unwind_fail):
            # loop numbering / bounds did not fit the (possibly edited) code: once more with a generous uniform bound
            saved = (self.unwind_rules, self.unwind_default, self.timeout)
            self.unwind_rules, self.unwind_default, self.timeout = [], self.retry_unwind, self.timeout * 3
            try:
                r2 = self.run(with_witness=with_witness, _retry=True)
            finally:
                self.unwind_rules, self.unwind_default, self.timeout = saved
            r2["note"] = (r2.get("note", "") + " [retried with uniform unwind %d after: %s]" % (self.retry_unwind, ",".join(unwind_fail[:4])))[:600]
            return r2
        if unwind_fail:
            res["verdict"] = "INCONCLUSIVE"
            res["note"] = "unwinding assertion failed: %s" % ",".join(unwind_fail[:6])
        elif res["failures"]:
            res["verdict"] = "FAILED"
        else:
            res["verdict"] = "HOLDS"
        if with_witness and res["verdict"] == "HOLDS":
            res["witness"] = self.run_witness(us)
            if res["witness"].get("reached", 0) == 0:
                res["verdict"] = "INCONCLUSIVE"
                res["note"] = "vacuous: no witness reachable"
        res["secs"] = round(time.time() - t0, 2)
        return res

    def run_witness(self, us):
        try:
            gb = self.build(witness=True)
        except core.BuildError as e:
            return {"error": str(e)[-300:], "reached": 0}
        r = core.run_cbmc(gb, ["--no-standard-checks"] + (["--object-bits", str(self.object_bits)] if self.object_bits else []) +
                          [f for f in self.cbmc_flags if f.startswith("--malloc") or f.startswith("--nondet")],
                          unwindset=us, timeout=self.timeout, mem_gb=self.mem_gb, trace=False)
        tags = {}
        for p in r["props"]:
            d = p.get("description", "")
            if d.startswith("WITNESS"):
                tags[d] = p.get("status") == "FAILURE"
        return {"reached": sum(1 for v in tags.values() if v), "total": len(tags), "status": r["status"],
                "unreached": [k for k, v in tags.items() if not v]}

    # ---------------------------------------------------------------- native replay
    def replay(self, inputs, outdir, name):
        """Build the same harness + the real sources natively (ASan/UBSan, guard pages) on the
        concrete inputs; returns dict(confirmed, kind, output)."""
        os.makedirs(outdir, exist_ok=True)
        wd = os.path.join(core.scratch(), "replay", re.sub(r"\W", "_", name))
        os.makedirs(wd, exist_ok=True)
        open(os.path.join(wd, "vh_inputs.h"), "w").write(core.inputs_header(inputs))
        native_files = list(self.repo_files)
        included = open(os.path.join(HARNESS, self.harness)).read()
        for f in NATIVE_SUPPORT:  # the native link needs every callee, also those CBMC drops as unreachable
            if f not in native_files and ('#include "%s"' % f.split("src/", 1)[1]) not in included:
                native_files.append(f)
        srcs = [os.path.join(HARNESS, self.harness)] + [os.path.join(core.REPO, f) for f in native_files] + self.extra_sources + \
               [os.path.join(MODELS, m) for m in self.native_models]
        extra_inc = sorted({os.path.dirname(os.path.join(core.REPO, f)) for f in self.repo_files})
        exe = os.path.join(wd, "replay")
        defs = [d for d in self.all_defines() if not d.startswith("-DVH_EXCLUDE") and not d.startswith("-DVH_ONLY")]
        cmd = ["gcc", "-O1", "-g", "-w", "-fno-builtin", "-I", wd, "-o", exe] + srcs + \
              core.inc_flags(self.variant, extra_inc) + defs + self.repo_defines + \
              ["-D_GNU_SOURCE", "-lm"]
        out = {"confirmed": False, "runs": []}
        b = core.run(cmd, timeout=300)
        if b["rc"] != 0:
            out["error"] = "native build failed: " + b["err"][-1500:]
            return out
        for mode in ("e", "f"):
            r = core.run([exe, mode], timeout=60, cwd=wd)
            txt = r["out"][-3000:]
            kinds = []
            for line in txt.splitlines():
                if line.startswith("FAIL " + self.prop):
                    kinds.append(line)
                elif line.startswith("FAULT"):
                    kinds.append(line)
            out["runs"].append({"mode": mode, "rc": r["rc"], "out": txt, "hits": kinds})
        return out


def _loc(p):
    sl = p.get("sourceLocation") or {}
    if not sl and p.get("trace"):
        sl = p["trace"][-1].get("sourceLocation", {})
    return {"file": sl.get("file"), "function": sl.get("function"), "line": sl.get("line")}
