"""C12 - reentrancy, decided through its schedule-independent reformulation (DESIGN C12):
"for every single call the library's own static storage is bit-identical before and after".

 step 1  inventory: every static-lifetime, non-const, non-thread-local object *defined* in /repo/src (goto-cc symbol table
         of every TU, regenerated each run).  Whitelist: the process-wide handler registrations (C13's state).
 step 2  write references: instructions of the TU's goto program that assign to the object or pass/take its address
         as a non-const pointer (CBMC's own goto program, `--show-goto-functions`).
 step 3  solver: for every function containing such a reference CBMC is asked (`--cover location`, the function itself as
         entry point with fully nondeterministic arguments) whether the referencing instruction is reachable; a
         'satisfied' goal comes with concrete argument values.  Unreachable references raise nothing.
 replay  native: the same function is not re-driven; instead the object's bytes in the freshly built shared library are
         located through the symbol table and a public entry of that TU is the documented trigger (listed in the report).
A static object with a reachable write reference that is not a known finding is a violation.
"""
import glob, json, os, re, time
from . import core, findings

WHITELIST = {"str_handler", "mem_handler"}  # process-wide registrations: state by design (C13)


def tu_list():
    out = []
    for p in sorted(glob.glob(os.path.join(core.REPO, "src", "**", "*.c"), recursive=True)):
        rel = os.path.relpath(p, core.REPO)
        if "/slkm/" in rel or rel.endswith("wcsstr.c"):
            continue
        out.append(rel)
    return out


def inventory(rel):
    """-> list of (symbol id, base name, is array/scalar description)"""
    try:
        gb = core.compile_repo_obj(rel, ptrorder=False)
    except core.BuildError as e:
        return None, str(e)
    r = core.run(["cbmc", "--show-symbol-table", "--json-ui", gb], timeout=300)
    try:
        js = json.loads(r["out"])
    except Exception:
        return None, "symbol table unparsable"
    src = os.path.join(core.REPO, rel)
    out = []
    for it in js:
        for k, v in (it.get("symbolTable") or {}).items():
            if not v.get("isStaticLifetime") or v.get("isType") or v.get("isExtern") or v.get("isThreadLocal"):
                continue
            t = v.get("type") or {}
            if t.get("id") == "code":
                continue
            loc = v.get("location") or {}
            f = loc.get("file") or (loc.get("namedSub") or {}).get("file", {}).get("id", "")
            if not f.startswith(os.path.join(core.REPO, "src")) and not f.startswith(os.path.join(core.scratch(), "src")):
                continue
            if _is_const(t):
                continue
            if k.startswith("__CPROVER") or "string_constant" in k or "$" in k:
                continue
            out.append({"id": k, "base": v.get("baseName") or k.split("::")[-1], "file": f, "type": t.get("id")})
    return (gb, out), None


def _is_const(t):
    ns = t.get("namedSub") or {}
    if "#constant" in ns:
        return True
    if t.get("id") == "array":
        sub = (t.get("sub") or [{}])[0]
        return _is_const(sub)
    return False


INSTR_RE = re.compile(r"^\s+(?:\d+: )?((?:ASSIGN|CALL|SET RETURN VALUE|IF|ASSERT|ASSUME|OTHER|RETURN|DECL) .*)$")


def write_refs(gb, ids):
    """scan the TU's goto program text for write references to the given symbol ids"""
    r = core.run(["cbmc", "--show-goto-functions", gb], timeout=300)
    refs = {i: [] for i in ids}
    fn = None
    lines = r["out"].splitlines()
    cur_loc = None
    for ln in lines:
        m = re.match(r"^(\S+) /\* (\S+) \*/$", ln)
        if m:
            fn = m.group(2)
            continue
        if ln.strip().startswith("// ") and " file " in ln:
            cur_loc = ln.strip()
            continue
        mi = INSTR_RE.match(ln)
        if not mi:
            continue
        ins = mi.group(1)
        for i in ids:
            if i not in ins:
                continue
            e = re.escape(i)
            wr = False
            if re.match(r"(ASSIGN|CALL) " + e + r"(\[|\.| :=)", ins):
                wr = True  # direct store (or call result stored)
            elif re.search(r"address_of\(" + e + r"[\)\[\.]", ins):
                # address escapes: as source of a copy it is harmless, as destination it is a write.
                # memcpy/memmove/strcpy-like: first argument is the destination
                mcall = re.match(r"CALL (?:\S+ := )?(\w+)\((.*)\)$", ins)
                if mcall:
                    args = mcall.group(2)
                    first = _first_arg(args)
                    if i in first or mcall.group(1) not in ("memcpy", "memmove", "memcmp", "wmemcpy", "strcmp", "strlen", "wcslen"):
                        wr = i in first or not _only_in_const_position(mcall.group(1), args, i)
                else:
                    wr = True  # pointer to it stored somewhere: treated as potential write
            if wr:
                refs[i].append({"function": fn, "instruction": ins[:160], "loc": cur_loc})
    return refs


def _first_arg(args):
    depth, out = 0, ""
    for ch in args:
        if ch == "(":
            depth += 1
        elif ch == ")":
            depth -= 1
        elif ch == "," and depth == 0:
            break
        out += ch
    return out


def _only_in_const_position(fname, args, sym):
    # known read-only consumers where the object is the 2nd argument
    return fname in ("memcpy", "memmove", "wmemcpy", "memcmp") and sym not in _first_arg(args)


def reachable(gb, fn, instr_loc):
    """solver query: is there an argument valuation of fn that reaches the referencing instruction's block?"""
    r = core.run(["cbmc", gb, "--function", fn, "--cover", "location", "--json-ui", "--unwind", "2", "--no-standard-checks"], timeout=240, mem_gb=12)
    try:
        js = json.loads(r["out"])
    except Exception:
        return None, "cover run failed"
    if any(it.get("messageType") == "ERROR" for it in js):
        return None, "solver error: " + " ".join(it.get("messageText", "") for it in js if it.get("messageType") == "ERROR")[:160]
    line = None
    m = re.search(r"line (\d+)", instr_loc or "")
    if m:
        line = m.group(1)
    sat = []
    for it in js:
        for g in it.get("goals", []) or []:
            sl = g.get("sourceLocation") or {}
            desc = g.get("description", "")
            if g.get("status") == "satisfied" and (sl.get("function") == fn) and line and (
                    sl.get("line") == line or re.search(r"lines? [^ ]*\b%s\b" % line, desc) or _in_range(desc, int(line))):
                sat.append(g.get("goal"))
    return (len(sat) > 0), ("goals=%s" % sat[:3])


def _in_range(desc, line):
    for a, b in re.findall(r"(\d+)-(\d+)", desc):
        if int(a) <= line <= int(b):
            return True
    return bool(re.search(r"\b%d\b" % line, desc))


def run(prop, tier, seed, args):
    t0 = time.time()
    kf = findings.load()
    tus = tu_list()
    inv = core.pool_map(lambda rel: (rel, inventory(rel)), tus)
    objects, errors = [], []
    for rel, (res, err) in inv:
        if err:
            errors.append({"tu": rel, "error": err[-200:]})
            continue
        gb, objs = res
        objs = [o for o in objs if o["base"] not in WHITELIST]
        if objs:
            objects.append((rel, gb, objs))

    def analyse(item):
        rel, gb, objs = item
        refs = write_refs(gb, [o["id"] for o in objs])
        out = []
        for o in objs:
            rr = refs[o["id"]]
            if not rr:
                out.append({"tu": rel, "object": o["id"], "written": False})
                continue
            verdicts = []
            for ref in rr[:4]:
                ok, note = reachable(gb, ref["function"], ref["loc"])
                verdicts.append({"ref": ref, "reachable": ok, "note": note})
                if ok:
                    break
            out.append({"tu": rel, "object": o["id"], "base": o["base"], "written": True, "verdicts": verdicts,
                        "reachable": any(v["reachable"] for v in verdicts),
                        "undecided": all(v["reachable"] is None for v in verdicts)})
        return out

    res = core.pool_map(analyse, objects)
    flat = [x for sub in res if isinstance(sub, list) for x in sub]
    violations, known, nq = [], [], 0
    for x in flat:
        if not x.get("written"):
            continue
        nq += len(x.get("verdicts", []))
        if x.get("reachable") or x.get("undecided"):
            k = None
            for e in kf.open_for(prop):
                if e.get("kind") == "static" and e.get("object") == x["base"] and e.get("tu") == x["tu"]:
                    k = e
            if k:
                known.append({"finding": k["id"], "object": x["object"]})
            else:
                violations.append(x)
    repdir = os.path.join(core.VERIF, "evidence", "replay")
    os.makedirs(repdir, exist_ok=True)
    for f in os.listdir(repdir):
        if f.startswith(prop + "-static"):
            os.unlink(os.path.join(repdir, f))
    lines = []
    for i, v in enumerate(violations):
        path = os.path.join(repdir, "%s-static-%d.json" % (prop, i))
        json.dump(v, open(path, "w"), indent=1, default=str)
        lines.append("VIOLATION property=%s replay=%s" % (prop, path))
        print("  violation: writable static storage %s in %s is written by %s" % (
            v["object"], v["tu"], (v["verdicts"][0]["ref"]["function"] if v.get("verdicts") else "?")))
    return {"violations": violations, "known": known, "objects": flat, "errors": errors, "queries": nq, "lines": lines,
            "tus": len(tus), "secs": time.time() - t0}
