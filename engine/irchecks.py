"""irchecks.py - drivers for the E2 engine (engine/llsym.py): C19 data independence and C18 secure erase.
The LLVM IR is regenerated from /repo's current sources with clang-14 on every run."""
import json, os, re, time
from . import core

LLSYM = os.path.join(core.VERIF, "engine", "llsym.py")
PYVT = "/opt/veriftools/pyvenv/bin/python"
CFLAGS = ["-fno-vectorize", "-fno-slp-vectorize", "-fno-unroll-loops", "-S", "-emit-llvm", "-DHAVE_CONFIG_H", "-w"]


def incs():
    return ["-I", core.config_dir(), "-I", os.path.join(core.REPO, "include"), "-I", os.path.join(core.REPO, "src")]


def emit_ir(src, out, opt, extra=()):
    r = core.run(["clang-14", "-O%s" % opt] + CFLAGS + incs() + list(extra) + [src, "-o", out], timeout=120)
    if r["rc"] != 0:
        raise core.BuildError("clang failed: %s" % r["err"][-800:])
    return out


def llsym(mode, ll, args, timeout=300):
    py = PYVT if os.path.exists(PYVT) else "python3"
    r = core.run([py, LLSYM, mode, ll] + [str(a) for a in args], timeout=timeout, mem_gb=8)
    try:
        return json.loads(r["out"].strip().splitlines()[-1])
    except Exception:
        return {"ok": False, "unsupported": "executor crashed: %s" % (r["err"][-400:] or r["out"][-400:]), "findings": []}


# ------------------------------------------------------------------------------------------------ C19
CT_FUNCS = [("timingsafe_bcmp", "src/extmem/timingsafe_bcmp.c", "_timingsafe_bcmp_chk"),
            ("timingsafe_memcmp", "src/extmem/timingsafe_memcmp.c", "_timingsafe_memcmp_chk")]


def c19_ct(tier):
    d = os.path.join(core.scratch(), "ir")
    os.makedirs(d, exist_ok=True)
    ns = [0, 1, 2, 3, 5, 8] if tier == "quick" else list(range(0, 17)) + [24, 32]
    opts = ["0", "2"] if tier == "quick" else ["0", "1", "2", "3"]
    work = []
    for name, rel, sym in CT_FUNCS:
        for o in opts:
            ll = os.path.join(d, "%s.O%s.ll" % (name, o))
            try:
                emit_ir(os.path.join(core.REPO, rel), ll, o)
            except core.BuildError as e:
                work.append({"fn": name, "opt": o, "error": str(e)})
                continue
            for n in ns:
                work.append({"fn": name, "opt": o, "n": n, "ll": ll, "sym": sym, "rel": rel})

    def one(w):
        if "error" in w:
            return dict(w, ok=False, findings=[], unsupported=w["error"])
        r = llsym("ct", w["ll"], ["--fn", w["sym"], "--n", w["n"]])
        r.update({"fn": w["fn"], "opt": w["opt"], "n": w["n"], "rel": w["rel"], "sym": w["sym"]})
        return r

    return core.pool_map(one, work)


def c19_replay(finding, res, outdir, idx):
    """native confirmation: instructions executed inside the function (callgrind, collection toggled on the function)
    for the two witness contents must differ."""
    w = (finding.get("witness") or [None, None])
    if not w or not w[0] or not w[1]:
        return {"confirmed": False, "note": "no witness"}
    n = res["n"]
    wd = os.path.join(core.scratch(), "ctreplay%d" % idx)
    os.makedirs(wd, exist_ok=True)
    drv = os.path.join(wd, "drv.c")
    open(drv, "w").write('''#include <stdio.h>
#include <stdlib.h>
#include <string.h>
extern int %s(const void *, const void *, size_t, size_t, size_t);
int main(int argc, char **argv) { unsigned char a[64], b[64]; size_t n = %d; (void)argc;
 for (size_t i = 0; i < n; i++) { unsigned x, y; sscanf(argv[1] + 2 * i, "%%2x", &x); sscanf(argv[2] + 2 * i, "%%2x", &y); a[i] = x; b[i] = y; }
 volatile int r = %s(a, b, n, (size_t)-1, (size_t)-1); (void)r; return 0; }
''' % (res["sym"], n, res["sym"]))
    exe = os.path.join(wd, "drv")
    src = [os.path.join(core.REPO, res["rel"]), os.path.join(core.REPO, "src/mem/safe_mem_constraint.c"),
           os.path.join(core.REPO, "src/ignore_handler_s.c")]
    b = core.run(["clang-14", "-O%s" % res["opt"], "-g", "-w", "-fno-vectorize", "-fno-slp-vectorize", "-fno-unroll-loops", "-DHAVE_CONFIG_H"] + incs() +
                 [drv] + src + ["-o", exe], timeout=120)
    if b["rc"] != 0:
        return {"confirmed": False, "note": "native build failed: " + b["err"][-300:]}
    counts = []
    for m in w[:2]:
        ha = "".join("%02x" % m.get("a_%d" % i, 0) for i in range(n)) or "00"
        hb = "".join("%02x" % m.get("b_%d" % i, 0) for i in range(n)) or "00"
        r = core.run(["valgrind", "--tool=callgrind", "--callgrind-out-file=/dev/null", "--collect-atstart=no",
                      "--toggle-collect=%s" % res["sym"], exe, ha, hb], timeout=120, cwd=wd)
        mm = re.search(r"Collected : (\d+)", r["err"])
        counts.append(int(mm.group(1)) if mm else None)
    return {"confirmed": counts[0] is not None and counts[1] is not None and counts[0] != counts[1],
            "instructions_in_function": counts, "contents": w[:2]}


# ------------------------------------------------------------------------------------------------ C18
ERASERS = [
    # name, sources (TU defining it first), call text with BUF/LEN/VAL placeholders, unit bytes, zero?, len divisor
    ("memset_s", ["src/mem/memset_s.c"], "memset_s(BUF, LEN, (int)(VAL & 0xff), LEN)", 1, False),
    ("memzero_s", ["src/extmem/memzero_s.c"], "memzero_s(BUF, LEN)", 1, True),
    ("memset16_s", ["src/extmem/memset16_s.c"], "memset16_s((uint16_t *)BUF, LEN, (uint16_t)VAL, LEN / 2)", 2, False),
    ("memset32_s", ["src/extmem/memset32_s.c"], "memset32_s((uint32_t *)BUF, LEN, (uint32_t)VAL, LEN / 4)", 4, False),
    ("memzero16_s", ["src/extmem/memzero16_s.c"], "memzero16_s((uint16_t *)BUF, LEN / 2)", 2, True),
    ("memzero32_s", ["src/extmem/memzero32_s.c"], "memzero32_s((uint32_t *)BUF, LEN / 4)", 4, True),
    ("strzero_s", ["src/extstr/strzero_s.c"], "strzero_s((char *)BUF, LEN)", 1, True),
]
LIBCOMMON = ["src/mem/mem_primitives_lib.c", "src/mem/safe_mem_constraint.c", "src/str/safe_str_constraint.c", "src/ignore_handler_s.c",
             "src/str/strnlen_s.c"]


def client_src(call, storage, size, off, ln):
    """size: bytes of the object; the call erases ln bytes at offset off"""
    hdr = '''#include <stdint.h>
#include <stdlib.h>
#include "safe_mem_lib.h"
#include "safe_str_lib.h"
extern void vh_fill(void *p, unsigned long n);   /* opaque: leaves a secret in the object */
extern unsigned vh_value(void);                  /* opaque: the fill value */
extern void vh_done(void);
'''
    call = call.replace("BUF", "(buf + %d)" % off).replace("LEN", "%dUL" % ln).replace("VAL", "v")
    if storage == "stack_ne":
        # no-escape stack buffer: its address is never handed to an opaque function, the secret arrives through plain stores -
        # the shape in which a compiler may treat the erasing stores as dead
        hdr += "extern unsigned char vh_secret8(void);\nextern void vh_use(unsigned);\n"
        body = ("void client(void) {\n    unsigned char buf[%d] __attribute__((aligned(8)));\n    unsigned v = vh_value(), s = 0;\n"
                "    for (unsigned i = 0; i < %d; i++) buf[i] = vh_secret8();\n    for (unsigned i = 0; i < %d; i++) s += buf[i] ^ i;\n"
                "    { volatile unsigned vk = %d; s += buf[vk %% %d]; } /* an index the compiler cannot fold keeps the array in memory */\n    vh_use(s);\n    %s;\n}\n" % (size, size, size, size // 2, size, call))
    elif storage == "stack":
        body = "void client(void) {\n    unsigned char buf[%d] __attribute__((aligned(8)));\n    unsigned v = vh_value();\n    vh_fill(buf, %d);\n    %s;\n}\n" % (size, size, call)
    elif storage == "heap":
        body = "void client(void) {\n    unsigned char *buf = (unsigned char *)malloc(%d);\n    unsigned v = vh_value();\n    if (!buf) return;\n    vh_fill(buf, %d);\n    %s;\n    free(buf);\n}\n" % (size, size, call)
    else:
        body = "static unsigned char buf[%d] __attribute__((aligned(8)));\nvoid client(void) {\n    unsigned v = vh_value();\n    vh_fill(buf, %d);\n    %s;\n    vh_done();\n}\n" % (size, size, call)
    return hdr + body


def c18(tier):
    d = os.path.join(core.scratch(), "ir18")
    os.makedirs(d, exist_ok=True)
    quick = tier == "quick"
    sizes = [(8, 0, 8), (24, 3, 16), (40, 0, 33)] if quick else [(8, 0, 8), (16, 1, 9), (24, 3, 16), (24, 0, 17), (40, 0, 33), (40, 5, 31), (72, 0, 64), (136, 1, 129)]
    storages = ["stack", "stack_ne", "heap"] if quick else ["stack", "stack_ne", "heap", "static"]
    client_opts = ["0", "2"] if quick else ["0", "1", "2", "3"]
    work = []
    # library IR at the library's -O2 (configuration i) - one file per TU, linked together once
    libparts = {}

    def lib_ir(rel):
        if rel not in libparts:
            out = os.path.join(d, "lib_" + rel.replace("/", "_") + ".ll")
            emit_ir(os.path.join(core.REPO, rel), out, "2")
            libparts[rel] = out
        return libparts[rel]

    errors = []
    for (name, srcs, call, unit, zero) in ERASERS:
        try:
            libs = [lib_ir(r) for r in srcs + LIBCOMMON]
        except core.BuildError as e:
            errors.append({"eraser": name, "error": str(e)[-300:]})
            continue
        for (size, off, ln) in sizes:
            if off % unit or ln % unit:
                off2, ln2 = off - off % unit, ln - ln % unit
            else:
                off2, ln2 = off, ln
            if ln2 == 0:
                continue
            for st in storages:
                cs = os.path.join(d, "cl_%s_%s_%d_%d_%d.c" % (name, st, size, off2, ln2))
                open(cs, "w").write(client_src(call, st, size, off2, ln2))
                for o in client_opts:
                    for cfg in (("sep", "lto") if o != "0" else ("sep",)):
                        work.append({"eraser": name, "storage": st, "size": size, "off": off2, "len": ln2, "opt": o, "cfg": cfg, "client": cs,
                                     "libs": libs, "unit": unit, "zero": zero})

    def one(w):
        tag = "%s_%s_%d_%d_%d_O%s_%s" % (w["eraser"], w["storage"], w["size"], w["off"], w["len"], w["opt"], w["cfg"])
        cl = os.path.join(d, tag + ".client.ll")
        try:
            emit_ir(w["client"], cl, w["opt"])
            linked = os.path.join(d, tag + ".linked.ll")
            r = core.run(["llvm-link-14", "-S", cl] + w["libs"] + ["-o", linked], timeout=120)
            if r["rc"] != 0:
                raise core.BuildError("llvm-link: " + r["err"][-300:])
            final = linked
            if w["cfg"] == "lto":
                final = os.path.join(d, tag + ".lto.ll")
                r = core.run(["opt-14", "-S", "-passes=internalize,default<O%s>" % ("2" if w["opt"] in ("1", "2") else "3"),
                              "-internalize-public-api-list=client", "-vectorize-loops=false", "-vectorize-slp=false",
                              linked, "-o", final], timeout=180)
                if r["rc"] != 0:
                    raise core.BuildError("opt: " + r["err"][-300:])
        except core.BuildError as e:
            return dict(w, ok=False, findings=[], unsupported=str(e)[-300:], libs=None)
        res = llsym("erase", final, ["--fn", "client", "--erase-off", w["off"], "--erase-len", w["len"], "--unit", w["unit"]] +
                    (["--zero"] if w["zero"] else []) + (["--nonzero-fill"] if w["eraser"] == "strzero_s" else []))
        res.update({k: w[k] for k in ("eraser", "storage", "size", "off", "len", "opt", "cfg", "client", "unit", "zero")})
        res["final_ir"] = final
        return res

    return core.pool_map(one, work), errors


def c18_replay(res, idx):
    """native confirmation: build the same client with clang at the same level (with -flto for the lto configuration),
    run it on a private stack / heap / static object and look at the bytes out of band after the buffer died."""
    wd = os.path.join(core.scratch(), "erreplay%d" % idx)
    os.makedirs(wd, exist_ok=True)
    drv = os.path.join(wd, "drv.c")
    storage = res["storage"]
    open(drv, "w").write(r'''#define _GNU_SOURCE
#include <pthread.h>
#include <stdio.h>
#include <stdlib.h>
#include <string.h>
#include <sys/mman.h>
extern void client(void);
static unsigned char *seen; static unsigned long seen_n;
void vh_fill(void *p, unsigned long n) { memset(p, 0xA5, n); seen = p; seen_n = n; }
unsigned vh_value(void) { return 0x5C5C5C5Cu; }
unsigned char vh_secret8(void) { return 0xA5; }
static volatile unsigned vh_sink; void vh_use(unsigned x) { vh_sink = x; }
static unsigned char snap[4096];
void vh_done(void) { memcpy(snap, seen, seen_n); }
static void *(*real_free_hook)(void *);
static void *thr(void *a) { (void)a; client(); return 0; }
int main(void) {
    size_t ssz = 1 << 20; void *stk = mmap(0, ssz, PROT_READ | PROT_WRITE, MAP_PRIVATE | MAP_ANONYMOUS, -1, 0);
    pthread_attr_t at; pthread_attr_init(&at); pthread_attr_setstack(&at, stk, ssz);
    pthread_t t; pthread_create(&t, &at, thr, 0); pthread_join(t, 0);
    const unsigned char *p = %s;
    int off = %d, len = %d, zero = %d, unit = %d, bad = 0;
    if (!seen) { /* no-escape client: look for the secret (a run of 8 or more 0xA5 bytes) anywhere in the dead private stack */
        const unsigned char *q = (const unsigned char *)stk; int run = 0;
        for (size_t i = 0; i < ssz; i++) { if (q[i] == 0xA5) { if (++run >= 8) bad = 1; } else run = 0; }
        printf("stack scan bad=%%d\n", bad);
        return bad ? 1 : 0;
    }
    for (int i = 0; i < (int)seen_n; i++) {
        unsigned char exp = (i >= off && i < off + len) ? (zero ? 0 : 0x5C) : 0xA5;
        if (p[i] != exp) bad++;
    }
    (void)unit;
    printf("bad=%%d\n", bad);
    return bad ? 1 : 0;
}
''' % ("snap" if storage == "static" else "seen", res["off"], res["len"], 1 if res["zero"] else 0, res["unit"]))
    exe = os.path.join(wd, "drv")
    libsrc = [os.path.join(core.REPO, f) for f in [e[1][0] for e in ERASERS if e[0] == res["eraser"]] + LIBCOMMON]
    flags = ["-O%s" % res["opt"]] + (["-flto"] if res["cfg"] == "lto" else [])
    # the driver (opaque producers/consumers) is a separate non-LTO object: it must stay opaque to the optimiser
    drvo = os.path.join(wd, "drv.o")
    b0 = core.run(["clang-14", "-O0", "-w", "-c", drv, "-o", drvo], timeout=120)
    if b0["rc"] != 0:
        return {"confirmed": False, "note": "native driver build failed: " + b0["err"][-300:]}
    cmd = ["clang-14"] + flags + ["-w", "-DHAVE_CONFIG_H", "-pthread"] + incs() + [drvo, res["client"]] + libsrc + ["-o", exe, "-fuse-ld=lld"]
    b = core.run(cmd, timeout=180)
    if b["rc"] != 0:
        cmd = [c for c in cmd if c != "-fuse-ld=lld"]
        b = core.run(cmd, timeout=180)
    if b["rc"] != 0:
        return {"confirmed": False, "note": "native build failed: " + b["err"][-300:]}
    r = core.run([exe], timeout=60, cwd=wd)
    if storage == "heap":
        return {"confirmed": None, "note": "heap: freed memory is not inspected natively (allocator reuses it); solver verdict stands on the IR", "out": r["out"][-100:]}
    return {"confirmed": r["rc"] == 1, "out": r["out"][-200:]}
