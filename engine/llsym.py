#!/opt/veriftools/pyvenv/bin/python
"""llsym.py - E2: a small symbolic executor for the LLVM-14 IR subset that clang emits for the erase / timing-safe
functions of safeclib and for generated client programs (typed pointers, scalar code: build with -fno-vectorize
-fno-slp-vectorize -fno-unroll-loops).  Integers are z3 bit-vectors (python ints while concrete), pointers are
(region, concrete byte offset), memory is a set of byte-addressed regions whose bytes are z3 terms.

Modes
  ct    : data-independence (C19).  The two input regions hold fresh 'secret' symbols.  For every conditional branch, switch,
          division and every load/store address the solver is asked whether its value can differ for two secret
          assignments (the term is not constant); any such dependence is reported.
  erase : C18.  Runs @client, whose buffer was filled by the opaque fill(); at the point the buffer's lifetime ends
          (return of client, or free) the solver must prove byte i == expected fill value for i < n and byte i == the
          symbol fill() put there for i >= n.
Output: one JSON object on stdout.
"""
import json, re, sys, time
import z3


class Unsupported(Exception):
    pass


# ---------------------------------------------------------------- values
class P:  # pointer
    __slots__ = ("reg", "off")

    def __init__(self, reg, off):
        self.reg, self.off = reg, off

    def __repr__(self):
        return "P(%s,%s)" % (self.reg, self.off)


def mask(w):
    return (1 << w) - 1


def is_c(v):
    return isinstance(v, int)


def bv(v, w):
    return z3.BitVecVal(v & mask(w), w) if is_c(v) else v


def simp(e):
    if is_c(e):
        return e
    e = z3.simplify(e)
    if z3.is_bv_value(e):
        return e.as_long()
    return e


# ---------------------------------------------------------------- types
class Types:
    def __init__(self):
        self.named = {}

    def parse(self, s):
        """returns type tuple: ('i',w) ('p',elem) ('a',n,elem) ('s',[fields],packed) ('v',) ('f',w)"""
        s = s.strip()
        t, rest = self._parse(s)
        if rest.strip():
            raise Unsupported("type trailing: %r in %r" % (rest, s))
        return t

    def _parse(self, s):
        s = s.lstrip()
        m = re.match(r"i(\d+)", s)
        if m:
            t = ("i", int(m.group(1)))
            rest = s[m.end():]
        elif s.startswith("void"):
            t, rest = ("v",), s[4:]
        elif s.startswith("double"):
            t, rest = ("f", 64), s[6:]
        elif s.startswith("float"):
            t, rest = ("f", 32), s[5:]
        elif s.startswith("x86_fp80"):
            t, rest = ("f", 128), s[8:]
        elif s.startswith("["):
            m = re.match(r"\[\s*(\d+)\s+x\s+", s)
            el, rest = self._parse(s[m.end():])
            rest = rest.lstrip()
            assert rest[0] == "]", s
            t, rest = ("a", int(m.group(1)), el), rest[1:]
        elif s.startswith("<{") or s.startswith("{"):
            packed = s.startswith("<{")
            body = s[2:] if packed else s[1:]
            fields = []
            body = body.lstrip()
            while not body.startswith("}"):
                f, body = self._parse(body)
                fields.append(f)
                body = body.lstrip()
                if body.startswith(","):
                    body = body[1:].lstrip()
            rest = body[1:]
            if packed:
                rest = rest.lstrip()[1:]
            t = ("s", fields, packed)
        elif s.startswith("%"):
            m = re.match(r'%("[^"]+"|[\w.$-]+)', s)
            t, rest = ("n", m.group(1)), s[m.end():]
        else:
            raise Unsupported("type %r" % s[:40])
        # pointer / function suffixes
        while True:
            r2 = rest.lstrip()
            if r2.startswith("*"):
                t, rest = ("p", t), r2[1:]
            elif r2.startswith("("):  # function type: skip to matching paren
                depth, i = 0, 0
                for i, ch in enumerate(r2):
                    if ch == "(":
                        depth += 1
                    elif ch == ")":
                        depth -= 1
                        if depth == 0:
                            break
                t, rest = ("fn", t), r2[i + 1:]
            else:
                break
        return t, rest

    def resolve(self, t):
        while t[0] == "n":
            if t[1] not in self.named:
                raise Unsupported("opaque type %s" % t[1])
            t = self.named[t[1]]
        return t

    def align(self, t):
        t = self.resolve(t)
        if t[0] == "i":
            return max(1, min(8, (t[1] + 7) // 8)) if t[1] <= 64 else 16
        if t[0] == "p" or t[0] == "fn":
            return 8
        if t[0] == "f":
            return 16 if t[1] == 128 else t[1] // 8
        if t[0] == "a":
            return self.align(t[2])
        if t[0] == "s":
            return 1 if t[2] else max([self.align(f) for f in t[1]] or [1])
        raise Unsupported("align %r" % (t,))

    def size(self, t):
        t = self.resolve(t)
        if t[0] == "i":
            b = (t[1] + 7) // 8
            return {1: 1, 2: 2, 3: 4, 4: 4}.get(b, (b + 7) // 8 * 8)
        if t[0] in ("p", "fn"):
            return 8
        if t[0] == "f":
            return 16 if t[1] == 128 else t[1] // 8
        if t[0] == "a":
            return t[1] * self.size(t[2])
        if t[0] == "s":
            off = 0
            for f in t[1]:
                if not t[2]:
                    a = self.align(f)
                    off = (off + a - 1) // a * a
                off += self.size(f)
            if not t[2]:
                a = self.align(t)
                off = (off + a - 1) // a * a
            return off
        raise Unsupported("size %r" % (t,))

    def field_off(self, t, idx):
        t = self.resolve(t)
        off = 0
        for i, f in enumerate(t[1]):
            if not t[2]:
                a = self.align(f)
                off = (off + a - 1) // a * a
            if i == idx:
                return off, f
            off += self.size(f)
        raise Unsupported("field")


# ---------------------------------------------------------------- module parsing
class Func:
    def __init__(self, name, params, rett):
        self.name, self.params, self.rett = name, params, rett
        self.blocks = {}
        self.order = []


def split_top(s, sep=","):
    out, depth, cur = [], 0, ""
    for ch in s:
        if ch in "([{<":
            depth += 1
        elif ch in ")]}>":
            depth -= 1
        if ch == sep and depth == 0:
            out.append(cur.strip())
            cur = ""
        else:
            cur += ch
    if cur.strip():
        out.append(cur.strip())
    return out


class Module:
    def __init__(self, text):
        self.types = Types()
        self.funcs = {}
        self.globals = {}  # name -> (type, init text, const)
        self.declared = set()
        self._parse(text)

    def _parse(self, text):
        cur = None
        blk = None
        joined, acc = [], None
        for raw in text.splitlines():  # a switch spreads its case list over several lines
            if acc is not None:
                acc += " " + raw.strip()
                if raw.strip().startswith("]"):
                    joined.append(acc)
                    acc = None
                continue
            if raw.rstrip().endswith("[") and " switch " in " " + raw:
                acc = raw.rstrip()
                continue
            joined.append(raw)
        for raw in joined:
            ln = raw.split(" ; preds")[0].rstrip()
            if not ln or ln.lstrip().startswith(";"):
                continue
            if cur is None:
                m = re.match(r'%("[^"]+"|[\w.$-]+) = type (.*)$', ln)
                if m:
                    if m.group(2).strip() != "opaque":
                        self.types.named[m.group(1)] = self.types.parse(m.group(2))
                    continue
                m = re.match(r'@("[^"]+"|[\w.$-]+) = (.*)$', ln)
                if m:
                    self.globals[m.group(1)] = m.group(2)
                    continue
                m = re.match(r"define .*?@(\"[^\"]+\"|[\w.$-]+)\((.*)\)[^{]*\{$", ln)
                if m:
                    head = ln[:ln.index("@" + m.group(1))]
                    params = []
                    for a in split_top(m.group(2)):
                        if a == "...":
                            continue
                        mm = re.search(r"(%[\w.$-]+)$", a)
                        tstr = a[:mm.start()] if mm else a
                        tstr = re.sub(r"\b(noundef|nocapture|readonly|writeonly|noalias|nonnull|signext|zeroext|returned|immarg|"
                                      r"dereferenceable\(\d+\)|dereferenceable_or_null\(\d+\)|align \d+|readnone|inreg|byval\([^)]*\)|sret\([^)]*\))\b", "", tstr)
                        params.append((self.types.parse(tstr), mm.group(1) if mm else None))
                    cur = Func(m.group(1), params, None)
                    self.funcs[m.group(1)] = cur
                    blk = "%entry0"
                    cur.blocks[blk] = []
                    cur.order.append(blk)
                    continue
                m = re.match(r"declare .*?@(\"[^\"]+\"|[\w.$-]+)\(", ln)
                if m:
                    self.declared.add(m.group(1))
                continue
            if ln == "}":
                cur = None
                continue
            m = re.match(r"^([\w.$-]+):", ln)
            if m:
                blk = "%" + m.group(1)
                cur.blocks[blk] = []
                cur.order.append(blk)
                continue
            cur.blocks[blk].append(ln.strip())
        # the implicit entry block label is the next unnamed value number; fix up name
        for f in self.funcs.values():
            n = sum(1 for p in f.params if p[1] is not None and re.match(r"%\d+$", p[1] or ""))
            unnamed_params = sum(1 for p in f.params if p[1] is None)
            first = f.order[0]
            label = "%" + str(n + unnamed_params)
            if first == "%entry0" and not f.blocks[first] and len(f.order) > 1:
                del f.blocks[first]      # the entry block carries an explicit label
                f.order.pop(0)
                continue
            if first == "%entry0":
                f.blocks[label] = f.blocks.pop(first)
                f.order[0] = label


# ---------------------------------------------------------------- executor
class Exec:
    def __init__(self, mod, mode, budget=400000):
        self.m, self.mode = mod, mode
        self.T = mod.types
        self.regions = {}   # id -> dict(size, bytes[], kind, live)
        self.nreg = 0
        self.findings = []
        self.steps = 0
        self.budget = budget
        self.solver_queries = 0
        self.solver_time = 0.0
        self.gregions = {}
        self.fill_info = None
        self.erase_checks = []
        self.freed_checks = []
        self.secrets = set()

    # ---- memory
    def new_region(self, size, kind, init=None):
        self.nreg += 1
        rid = "%s%d" % (kind, self.nreg)
        if init is None:
            init = [z3.BitVec("u_%s_%d" % (rid, i), 8) for i in range(size)]
        self.regions[rid] = {"size": size, "bytes": list(init), "kind": kind, "live": True}
        return rid

    def load(self, p, nbytes):
        if not isinstance(p, P):
            raise Unsupported("load through non-pointer")
        if not is_c(p.off):
            self.finding("address", "load address depends on data")
            raise Unsupported("symbolic address")
        r = self.regions[p.reg]
        if p.off < 0 or p.off + nbytes > r["size"]:
            self.finding("oob", "load outside object %s at %d+%d (size %d)" % (p.reg, p.off, nbytes, r["size"]))
            raise Unsupported("out of bounds load")
        bs = r["bytes"][p.off:p.off + nbytes]
        if all(isinstance(b, P) or (isinstance(b, tuple)) for b in bs):
            # a stored pointer (kept whole in slot 0)
            if isinstance(bs[0], tuple) and bs[0][0] == "ptr":
                return bs[0][1]
        for b in bs:
            if isinstance(b, tuple):
                raise Unsupported("partial pointer load")
        val = None
        allc = all(is_c(b) for b in bs)
        if allc:
            v = 0
            for i, b in enumerate(bs):
                v |= (b & 0xff) << (8 * i)
            return v
        parts = [bv(b, 8) for b in reversed(bs)]
        val = parts[0] if len(parts) == 1 else z3.Concat(*parts)
        return simp(val)

    def store(self, p, val, nbytes):
        if not isinstance(p, P):
            raise Unsupported("store through non-pointer")
        if not is_c(p.off):
            self.finding("address", "store address depends on data")
            raise Unsupported("symbolic address")
        r = self.regions[p.reg]
        if p.off < 0 or p.off + nbytes > r["size"]:
            self.finding("oob", "store outside object %s at %d+%d (size %d)" % (p.reg, p.off, nbytes, r["size"]))
            raise Unsupported("out of bounds store")
        if isinstance(val, P):
            r["bytes"][p.off] = ("ptr", val)
            for i in range(1, nbytes):
                r["bytes"][p.off + i] = ("ptrtail",)
            return
        for i in range(nbytes):
            if is_c(val):
                r["bytes"][p.off + i] = (val >> (8 * i)) & 0xff
            else:
                r["bytes"][p.off + i] = simp(z3.Extract(8 * i + 7, 8 * i, val))
        # no-escape clients: the secret reaches memory through ordinary stores of vh_secret8() values
        if getattr(self, "nsec", 0) and not is_c(val) and "sec8_" in str(val)[:4000]:
            fi = getattr(self, "fill_info", None)
            if not fi or fi.get("by") != "stores":
                self.fill_info = {"reg": p.reg, "off": p.off, "n": nbytes, "syms": [], "by": "stores"}
            elif fi["reg"] == p.reg:
                lo = min(fi["off"], p.off)
                hi = max(fi["off"] + fi["n"], p.off + nbytes)
                fi["off"], fi["n"] = lo, hi - lo

    # ---- findings / solver
    def finding(self, kind, msg, **kw):
        d = {"kind": kind, "msg": msg}
        d.update(kw)
        d["where"] = getattr(self, "where", None)
        self.findings.append(d)

    def nonconstant(self, e, pc):
        """can e take two different values (over the secret symbols) under the path condition?"""
        if is_c(e):
            return None
        t0 = time.time()
        s = z3.Solver()
        s.set("timeout", 20000)
        for c in pc:
            s.add(c)
        self.solver_queries += 1
        if s.check() != z3.sat:
            self.solver_time += time.time() - t0
            return None
        m = s.model()
        v0 = m.eval(e, model_completion=True)
        s.add(e != v0)
        r = s.check()
        self.solver_time += time.time() - t0
        if r == z3.sat:
            m2 = s.model()
            return (m, m2)
        return None

    def feasible(self, cond, pc):
        t0 = time.time()
        s = z3.Solver()
        s.set("timeout", 20000)
        for c in pc:
            s.add(c)
        s.add(cond)
        self.solver_queries += 1
        r = s.check()
        self.solver_time += time.time() - t0
        return r != z3.unsat

    # ---- operands
    def operand(self, tok, ty, env):
        tok = tok.strip()
        ty = self.T.resolve(ty)
        if tok.startswith("%"):
            if tok not in env:
                raise Unsupported("undefined value %s" % tok)
            return env[tok]
        if tok in ("null", "zeroinitializer") and ty[0] in ("p", "fn"):
            return P("null", 0)
        if tok in ("undef", "poison"):
            return 0 if ty[0] == "i" else P("null", 0)
        if tok == "true":
            return 1
        if tok == "false":
            return 0
        if re.match(r"-?\d+$", tok):
            return int(tok) & mask(ty[1]) if ty[0] == "i" else int(tok)
        if tok.startswith("@"):
            return P(self.global_region(tok[1:]), 0)
        m = re.match(r"getelementptr (?:inbounds )?\((.*)\)$", tok)
        if m:
            parts = split_top(m.group(1))
            base_t = self.T.parse(parts[0])
            ptok = parts[1]
            mt = re.match(r"(.*\*)\s+(\S+)$", ptok)
            basep = self.operand(mt.group(2), self.T.parse(mt.group(1)), env)
            idx = []
            for a in parts[2:]:
                ma = re.match(r"(i\d+)\s+(\S+)$", a)
                idx.append(self.operand(ma.group(2), self.T.parse(ma.group(1)), env))
            return self.gep(basep, base_t, idx)
        m = re.match(r"bitcast \((.*) to (.*)\)$", tok)
        if m:
            mt = re.match(r"(.*\*)\s+(\S+)$", m.group(1).strip())
            return self.operand(mt.group(2), self.T.parse(mt.group(1)), env)
        m = re.match(r"(ptrtoint|inttoptr) \((.*) to (.*)\)$", tok)
        if m:
            raise Unsupported("constant %s" % m.group(1))
        raise Unsupported("operand %r" % tok)

    def global_region(self, name):
        if name in self.gregions:
            return self.gregions[name]
        if name in self.m.funcs or name in self.m.declared:
            rid = "fn:" + name
            self.regions[rid] = {"size": 0, "bytes": [], "kind": "fn", "live": True}
            self.gregions[name] = rid
            return rid
        g = self.m.globals.get(name)
        if g is None:
            raise Unsupported("unknown global @%s" % name)
        # "<linkage...> global|constant TYPE INIT, align N"
        m = re.search(r"\b(global|constant)\s+(.*)$", g)
        rest = m.group(2)
        rest = re.sub(r",\s*(align \d+|section \"[^\"]*\"|comdat.*|!dbg.*)$", "", rest).strip()
        rest = re.sub(r",\s*align \d+.*$", "", rest)
        t, init = self.T._parse(rest)
        size = self.T.size(t)
        init = init.strip()
        data = None
        ms = re.match(r'c"(.*)"$', init)
        if init == "zeroinitializer" or init == "":
            data = [0] * size
        elif ms:
            data = []
            s = ms.group(1)
            i = 0
            while i < len(s):
                if s[i] == "\\":
                    data.append(int(s[i + 1:i + 3], 16))
                    i += 3
                else:
                    data.append(ord(s[i]))
                    i += 1
        elif re.match(r"-?\d+$", init) and self.T.resolve(t)[0] == "i":
            v = int(init)
            data = [(v >> (8 * i)) & 0xff for i in range(size)]
        rid = self.new_region(size, "g_" + re.sub(r"\W", "_", name) + "_", data)
        self.gregions[name] = rid
        return rid

    def gep(self, basep, base_t, idx):
        if not isinstance(basep, P):
            raise Unsupported("gep on non-pointer")
        off = basep.off
        t = base_t
        first = True
        for i in idx:
            if first:
                step = self.T.size(t)
                first = False
                off = self.addoff(off, i, step)
                continue
            rt = self.T.resolve(t)
            if rt[0] == "a":
                off = self.addoff(off, i, self.T.size(rt[2]))
                t = rt[2]
            elif rt[0] == "s":
                if not is_c(i):
                    raise Unsupported("symbolic struct index")
                fo, ft = self.T.field_off(rt, i)
                off = off + fo if is_c(off) else off + fo
                t = ft
            else:
                raise Unsupported("gep into %r" % (rt,))
        return P(basep.reg, off)

    def addoff(self, off, i, step):
        if is_c(i):
            if i >= 1 << 63:
                i -= 1 << 64
            elif i >= 1 << 31 and i < 1 << 32:
                pass
            if is_c(off):
                return off + i * step
            return simp(off + i * step)
        e = z3.SignExt(64 - i.size(), i) if i.size() < 64 else i
        return simp(bv(off, 64) + e * step)

    # ---- interpretation
    def run(self, fname, args, pc=None, depth=0):
        if depth > 12:
            raise Unsupported("call depth")
        f = self.m.funcs[fname]
        env = {}
        k = 0
        for (t, name), a in zip(f.params, args):
            if name is None:
                name = "%" + str(k)
            if re.match(r"%\d+$", name):
                k = int(name[1:]) + 1
            env[name] = a
        pc = pc if pc is not None else []
        prev, cur = None, f.order[0]
        while True:
            instrs = f.blocks[cur]
            # phis first (parallel assignment)
            newvals = {}
            i = 0
            while i < len(instrs) and " = phi " in instrs[i]:
                m = re.match(r"(%[\w.$-]+) = phi (.*?) (\[.*)$", instrs[i])
                ty = self.T.parse(m.group(2))
                chosen = None
                for inc in re.findall(r"\[\s*(.*?),\s*(%[\w.$-]+)\s*\]", m.group(3)):
                    if inc[1] == prev:
                        chosen = inc[0]
                if chosen is None:
                    raise Unsupported("phi without matching predecessor %s in %s" % (prev, cur))
                newvals[m.group(1)] = self.operand(chosen, ty, env)
                i += 1
            env.update(newvals)
            for ins in instrs[i:]:
                self.steps += 1
                if self.steps > self.budget:
                    raise Unsupported("step budget exhausted")
                self.where = "%s:%s: %s" % (fname, cur, ins[:100])
                r = self.step(ins, env, pc, fname, depth)
                if r is None:
                    continue
                kind = r[0]
                if kind == "ret":
                    return r[1]
                if kind == "br":
                    prev, cur = cur, r[1]
                    break
            else:
                raise Unsupported("block %s falls through" % cur)

    def int_binop(self, op, a, b, w):
        if is_c(a) and is_c(b):
            sa = a - (1 << w) if a >> (w - 1) else a
            sb = b - (1 << w) if b >> (w - 1) else b
            if op == "add": r = a + b
            elif op == "sub": r = a - b
            elif op == "mul": r = a * b
            elif op == "and": r = a & b
            elif op == "or": r = a | b
            elif op == "xor": r = a ^ b
            elif op == "shl": r = a << b if b < w else 0
            elif op == "lshr": r = a >> b if b < w else 0
            elif op == "ashr": r = sa >> b if b < w else (-1 if sa < 0 else 0)
            elif op == "udiv": r = a // b
            elif op == "urem": r = a % b
            elif op == "sdiv": r = int(sa / sb)
            elif op == "srem": r = sa - int(sa / sb) * sb
            else: raise Unsupported(op)
            return r & mask(w)
        A, B = bv(a, w), bv(b, w)
        if op == "add": r = A + B
        elif op == "sub": r = A - B
        elif op == "mul": r = A * B
        elif op == "and": r = A & B
        elif op == "or": r = A | B
        elif op == "xor": r = A ^ B
        elif op == "shl": r = A << B
        elif op == "lshr": r = z3.LShR(A, B)
        elif op == "ashr": r = A >> B
        elif op == "udiv": r = z3.UDiv(A, B)
        elif op == "urem": r = z3.URem(A, B)
        elif op == "sdiv": r = A / B
        elif op == "srem": r = z3.SRem(A, B)
        else: raise Unsupported(op)
        return simp(r)

    def icmp(self, pred, a, b, w):
        if isinstance(a, P) or isinstance(b, P):
            if not (isinstance(a, P) and isinstance(b, P)):
                raise Unsupported("pointer/int compare")
            if a.reg != b.reg:
                if pred == "eq": return 0
                if pred == "ne": return 1
                # different objects: ordered by creation (as CBMC does); null lowest
                ka, kb = self.regkey(a.reg), self.regkey(b.reg)
                a2, b2 = ka, kb
            else:
                a2, b2 = a.off, b.off
            return self.icmp(pred, a2 if is_c(a2) else a2, b2 if is_c(b2) else b2, 64)
        if is_c(a) and is_c(b):
            sa = a - (1 << w) if a >> (w - 1) else a
            sb = b - (1 << w) if b >> (w - 1) else b
            return int({"eq": a == b, "ne": a != b, "ugt": a > b, "uge": a >= b, "ult": a < b, "ule": a <= b,
                        "sgt": sa > sb, "sge": sa >= sb, "slt": sa < sb, "sle": sa <= sb}[pred])
        A, B = bv(a, w), bv(b, w)
        c = {"eq": A == B, "ne": A != B, "ugt": z3.UGT(A, B), "uge": z3.UGE(A, B), "ult": z3.ULT(A, B), "ule": z3.ULE(A, B),
             "sgt": A > B, "sge": A >= B, "slt": A < B, "sle": A <= B}[pred]
        return simp(z3.If(c, z3.BitVecVal(1, 1), z3.BitVecVal(0, 1)))

    def regkey(self, rid):
        if rid == "null":
            return 0
        m = re.search(r"(\d+)$", rid)
        return (int(m.group(1)) if m else 1) << 20

    def step(self, ins, env, pc, fname, depth):
        T = self.T
        ins = re.sub(r",\s*![\w.]+ !\d+", "", ins)
        ins = re.sub(r",\s*!srcloc !\d+", "", ins)
        m = re.match(r"(%[\w.$-]+) = (.*)$", ins)
        dst, body = (m.group(1), m.group(2)) if m else (None, ins)
        op = body.split()[0]
        if op in ("add", "sub", "mul", "and", "or", "xor", "shl", "lshr", "ashr", "udiv", "urem", "sdiv", "srem"):
            mm = re.match(r"\w+ (?:nuw |nsw |exact )*(i\d+) (.*)$", body)
            ty = T.parse(mm.group(1))
            a, b = [self.operand(x, ty, env) for x in split_top(mm.group(2))]
            if op in ("udiv", "urem", "sdiv", "srem") and self.mode == "ct" and (not is_c(a) or not is_c(b)):
                self.finding("division", "division with data-dependent operand")
            env[dst] = self.int_binop(op, a, b, ty[1])
            return None
        if op == "icmp":
            mm = re.match(r"icmp (\w+) (.*?) ([^ ,]+|getelementptr .*?\)), (.*)$", body)
            pred = mm.group(1)
            ty = T.resolve(T.parse(mm.group(2)))
            a = self.operand(mm.group(3), ty, env)
            b = self.operand(mm.group(4), ty, env)
            env[dst] = self.icmp(pred, a, b, ty[1] if ty[0] == "i" else 64)
            return None
        if op in ("zext", "sext", "trunc"):
            mm = re.match(r"\w+ (i\d+) (\S+) to (i\d+)$", body)
            fw, tw = int(mm.group(1)[1:]), int(mm.group(3)[1:])
            a = self.operand(mm.group(2), ("i", fw), env)
            if is_c(a):
                if op == "zext": r = a
                elif op == "sext": r = (a - (1 << fw) if a >> (fw - 1) else a) & mask(tw)
                else: r = a & mask(tw)
            else:
                r = simp(z3.ZeroExt(tw - fw, a) if op == "zext" else z3.SignExt(tw - fw, a) if op == "sext" else z3.Extract(tw - 1, 0, a))
            env[dst] = r
            return None
        if op == "select":
            mm = re.match(r"select i1 (\S+), (.*?) (\S+), (.*?) (\S+)$", body)
            c = self.operand(mm.group(1), ("i", 1), env)
            ty = T.resolve(T.parse(mm.group(2)))
            a = self.operand(mm.group(3), ty, env)
            b = self.operand(mm.group(5), ty, env)
            if is_c(c):
                env[dst] = a if c else b
            else:
                if isinstance(a, P) or isinstance(b, P):
                    if self.mode == "ct":
                        self.finding("address", "pointer selected by a data-dependent condition")
                    raise Unsupported("select of pointers on symbolic condition")
                env[dst] = simp(z3.If(c == 1, bv(a, ty[1]), bv(b, ty[1])))
            return None
        if op == "alloca":
            mm = re.match(r"alloca (.*?)(?:, (i\d+) (\S+))?(?:, align \d+)?$", body)
            ty = T.parse(mm.group(1))
            n = 1
            if mm.group(2):
                n = self.operand(mm.group(3), T.parse(mm.group(2)), env)
                if not is_c(n):
                    raise Unsupported("symbolic alloca")
            rid = self.new_region(T.size(ty) * n, "stack")
            self.regions[rid]["owner"] = (fname, depth)
            env[dst] = P(rid, 0)
            return None
        if op == "load":
            mm = re.match(r"load (?:volatile |atomic )?(.*?), (.*?\*) (\S+?)(?:,? (?:align|seq_cst|monotonic|acquire|unordered).*)?$", body)
            ty = T.resolve(T.parse(mm.group(1)))
            p = self.operand(mm.group(3), T.parse(mm.group(2)), env)
            if ty[0] in ("p", "fn"):
                v = self.load(p, 8)
                if not isinstance(v, P):
                    if is_c(v) and v == 0:
                        v = P("null", 0)
                    else:
                        raise Unsupported("load of non-pointer bytes as pointer")
                env[dst] = v
            elif ty[0] == "i":
                nb = T.size(ty)
                v = self.load(p, nb)
                if isinstance(v, P):
                    raise Unsupported("pointer loaded as integer")
                if ty[1] < nb * 8:
                    v = v & mask(ty[1]) if is_c(v) else simp(z3.Extract(ty[1] - 1, 0, v))
                env[dst] = v
            else:
                raise Unsupported("load of %r" % (ty,))
            return None
        if op == "store":
            mm = re.match(r"store (?:volatile |atomic )?(.*?) (\S+|getelementptr .*?\)|bitcast .*?\)), (.*?\*) (\S+?)(?:,? (?:align|seq_cst|monotonic|release|unordered).*)?$", body)
            ty = T.resolve(T.parse(mm.group(1)))
            v = self.operand(mm.group(2), ty, env)
            p = self.operand(mm.group(4), T.parse(mm.group(3)), env)
            if ty[0] in ("p", "fn"):
                self.store(p, v, 8)
            elif ty[0] == "i":
                self.store(p, v, T.size(ty))
            else:
                raise Unsupported("store of %r" % (ty,))
            return None
        if op == "getelementptr":
            mm = re.match(r"getelementptr (?:inbounds )?(.*)$", body)
            parts = split_top(mm.group(1))
            base_t = T.parse(parts[0])
            mt = re.match(r"(.*\*)\s+(\S+|getelementptr .*\))$", parts[1])
            basep = self.operand(mt.group(2), T.parse(mt.group(1)), env)
            idx = []
            for a in parts[2:]:
                ma = re.match(r"(i\d+)\s+(\S+)$", a)
                idx.append(self.operand(ma.group(2), T.parse(ma.group(1)), env))
            env[dst] = self.gep(basep, base_t, idx)
            return None
        if op == "bitcast":
            mm = re.match(r"bitcast (.*?) (\S+) to (.*)$", body)
            env[dst] = self.operand(mm.group(2), T.parse(mm.group(1)), env)
            return None
        if op == "ptrtoint":
            mm = re.match(r"ptrtoint (.*?) (\S+) to (i\d+)$", body)
            p = self.operand(mm.group(2), T.parse(mm.group(1)), env)
            # integer view of a pointer: (region key) + offset; regions are 2^20 apart and 16-aligned
            if not isinstance(p, P):
                env[dst] = p
            else:
                if not is_c(p.off):
                    raise Unsupported("ptrtoint of symbolic pointer")
                env[dst] = ("pi", p)  # tagged: arithmetic on it is limited
                env[dst] = (self.regkey(p.reg) + p.off) & mask(64)
                self.pint = getattr(self, "pint", {})
                self.pint[env[dst]] = p
            return None
        if op == "inttoptr":
            mm = re.match(r"inttoptr (i\d+) (\S+) to (.*)$", body)
            v = self.operand(mm.group(2), T.parse(mm.group(1)), env)
            if not is_c(v):
                raise Unsupported("inttoptr of symbolic value")
            # find region by key
            for rid in self.regions:
                k = self.regkey(rid)
                if k <= v < k + (1 << 20) and rid != "null" and not rid.startswith("fn:"):
                    env[dst] = P(rid, v - k)
                    return None
            if v == 0:
                env[dst] = P("null", 0)
                return None
            raise Unsupported("inttoptr %d" % v)
        if op == "br":
            mm = re.match(r"br label (%[\w.$-]+)$", body)
            if mm:
                return ("br", mm.group(1))
            mm = re.match(r"br i1 (\S+), label (%[\w.$-]+), label (%[\w.$-]+)", body)
            c = self.operand(mm.group(1), ("i", 1), env)
            if is_c(c):
                return ("br", mm.group(2) if c else mm.group(3))
            tfeas = self.feasible(c == 1, pc)
            ffeas = self.feasible(c == 0, pc)
            if tfeas and ffeas:
                if self.mode == "ct":
                    w = self.nonconstant(c, pc)
                    self.finding("branch", "conditional branch depends on the contents of the regions",
                                 witness=self.witness(w))
                    raise Unsupported("secret-dependent branch")
                raise Unsupported("data-dependent branch in erase mode")
            if tfeas:
                return ("br", mm.group(2))
            return ("br", mm.group(3))
        if op == "switch":
            mm = re.match(r"switch (i\d+) (\S+), label (%[\w.$-]+) \[(.*)\]$", body)
            ty = T.parse(mm.group(1))
            v = self.operand(mm.group(2), ty, env)
            if not is_c(v):
                if self.mode == "ct":
                    self.finding("branch", "switch depends on the contents of the regions")
                raise Unsupported("symbolic switch")
            for cv, lab in re.findall(r"i\d+ (-?\d+), label (%[\w.$-]+)", mm.group(4)):
                if int(cv) & mask(ty[1]) == v:
                    return ("br", lab)
            return ("br", mm.group(3))
        if op == "ret":
            mm = re.match(r"ret void$", body)
            if mm:
                return ("ret", None)
            mm = re.match(r"ret (.*?) (\S+)$", body)
            return ("ret", self.operand(mm.group(2), T.parse(mm.group(1)), env))
        if op == "unreachable":
            raise Unsupported("unreachable executed")
        if op == "fence":
            return None
        if op in ("call", "tail", "musttail", "notail"):
            return self.call(dst, body, env, pc, fname, depth)
        if op == "freeze":
            mm = re.match(r"freeze (.*?) (\S+)$", body)
            env[dst] = self.operand(mm.group(2), T.parse(mm.group(1)), env)
            return None
        raise Unsupported("instruction %r" % ins[:80])

    def witness(self, w):
        if not w:
            return None
        out = []
        for m in w:
            d = {}
            for s in sorted(self.secrets):
                v = m.eval(z3.BitVec(s, 8), model_completion=True)
                d[s] = v.as_long()
            out.append(d)
        return out

    def call(self, dst, body, env, pc, fname, depth):
        T = self.T
        body = re.sub(r"^(tail|musttail|notail) ", "", body)
        mm = re.match(r"call (?:fastcc |ccc )?(?:(?:noundef|signext|zeroext|noalias|nonnull|align \d+|dereferenceable(?:_or_null)?\(\d+\)) )*(.*?) (@[\w.$\"-]+|%[\w.$-]+|asm .*?\"[^\"]*\")\s*\((.*)\)(?: #\d+)?(?:, !.*)?$", body)
        if not mm:
            raise Unsupported("call syntax %r" % body[:100])
        rett_s, callee, argstr = mm.group(1), mm.group(2), mm.group(3)
        if "(" in rett_s:  # varargs function type spelled out: "i32 (i8*, ...)"
            rett_s = rett_s[:rett_s.index("(")].strip()
        if callee.startswith("asm"):
            return None  # compiler barrier / mfence as inline asm
        args = []
        for a in split_top(argstr):
            a2 = re.sub(r"dereferenceable(_or_null)?\(\d+\) ?", "", a)
            a2 = re.sub(r"\b(noundef|nocapture|readonly|writeonly|noalias|nonnull|signext|zeroext|returned|immarg|"
                        r"align \d+|readnone|inreg)\b ?", "", a2).strip()
            if a2.startswith("metadata"):
                args.append(None)
                continue
            ty, rest = T._parse(a2)
            args.append(self.operand(rest.strip(), ty, env))
        if callee.startswith("%"):
            tgt = env[callee]
            if not isinstance(tgt, P) or not tgt.reg.startswith("fn:"):
                raise Unsupported("indirect call")
            name = tgt.reg[3:]
        else:
            name = callee[1:].strip('"')
        r = self.extern(name, args, pc, fname, depth)
        if r is NotImplemented:
            if name in self.m.funcs:
                r = self.run(name, args, pc, depth + 1)
                # stack objects of the callee die here
                for rid, reg in self.regions.items():
                    if reg.get("owner") == (name, depth + 1) and reg["live"]:
                        reg["live"] = False
            else:
                raise Unsupported("call to undefined function %s" % name)
        if dst is not None:
            env[dst] = r if r is not None else 0
        return None

    def extern(self, name, args, pc, fname, depth):
        if name.startswith("llvm.lifetime") or name.startswith("llvm.dbg") or name in ("llvm.assume", "llvm.x86.sse2.mfence",
                                                                                       "llvm.experimental.noalias.scope.decl"):
            return None
        if name.startswith("llvm.expect"):
            return args[0]
        if name.startswith("llvm.objectsize"):
            p = args[0]
            if isinstance(p, P) and p.reg in self.regions and is_c(p.off):
                return max(0, self.regions[p.reg]["size"] - p.off)
            return mask(64)
        if name in ("invoke_safe_mem_constraint_handler", "invoke_safe_str_constraint_handler", "handle_mem_bos_chk_warn",
                    "handle_str_bos_chk_warn") and name not in self.m.funcs:
            self.handler_calls = getattr(self, "handler_calls", 0) + 1
            return None
        if name.startswith("llvm.memset"):
            p, v, n = args[0], args[1], args[2]
            if not is_c(n):
                raise Unsupported("memset of symbolic length")
            for i in range(n):
                self.store(P(p.reg, p.off + i), v, 1)
            return None
        if name.startswith("llvm.memcpy") or name.startswith("llvm.memmove") or name in ("memcpy", "memmove"):
            d, s, n = args[0], args[1], args[2]
            if not is_c(n):
                raise Unsupported("memcpy of symbolic length")
            tmp = [self.load(P(s.reg, s.off + i), 1) for i in range(n)]
            for i in range(n):
                self.store(P(d.reg, d.off + i), tmp[i], 1)
            return d if not name.startswith("llvm.") else None
        if name in ("explicit_bzero", "bzero"):
            p, n = args[0], args[1]
            if not is_c(n):
                raise Unsupported("bzero of symbolic length")
            for i in range(n):
                self.store(P(p.reg, p.off + i), 0, 1)
            return None
        if name == "memset" and name not in self.m.funcs:
            p, v, n = args[0], args[1], args[2]
            if not is_c(n):
                raise Unsupported("memset of symbolic length")
            vv = v & 0xff if is_c(v) else simp(z3.Extract(7, 0, v))
            for i in range(n):
                self.store(P(p.reg, p.off + i), vv, 1)
            return p
        if name == "vh_fill":  # opaque producer of the secret: havoc the whole object
            p, n = args[0], args[1]
            r = self.regions[p.reg]
            syms = []
            for i in range(n):
                s = z3.BitVec("fill_%d" % i, 8)
                r["bytes"][p.off + i] = s
                syms.append(s)
                if getattr(self, "nonzero_fill", False):
                    pc.append(s != 0)
            self.fill_info = {"reg": p.reg, "off": p.off, "n": n, "syms": syms}
            return None
        if name == "vh_secret8":  # opaque producer of one secret byte (no-escape clients)
            k = getattr(self, "nsec", 0)
            self.nsec = k + 1
            sb = z3.BitVec("sec8_%d" % k, 8)
            if getattr(self, "nonzero_fill", False):
                pc.append(sb != 0)
            return sb
        if name == "vh_use":  # opaque consumer of a scalar
            return None
        if name == "vh_value":  # opaque symbolic fill value
            return z3.BitVec("fillvalue", 32)
        if name == "malloc" and name not in self.m.funcs:
            n = args[0]
            if not is_c(n):
                raise Unsupported("malloc symbolic")
            return P(self.new_region(n, "heap"), 0)
        if name == "free" and name not in self.m.funcs:
            p = args[0]
            if isinstance(p, P) and p.reg in self.regions:
                self.on_lifetime_end(p.reg, "free")
                self.regions[p.reg]["live"] = False
            return None
        if name == "vh_done":  # marks the end of the buffer's lifetime for static storage
            self.on_lifetime_end(self.fill_info["reg"], "end of program")
            return None
        return NotImplemented

    def on_lifetime_end(self, reg, why):
        if self.mode != "erase" or not self.fill_info or self.fill_info["reg"] != reg:
            return
        self.erase_checks.append((why, list(self.regions[reg]["bytes"])))


def prove_eq(a, b, w=8):
    if is_c(a) and is_c(b):
        return a == b, None
    s = z3.Solver()
    s.set("timeout", 20000)
    s.add(bv(a, w) != bv(b, w))
    r = s.check()
    if r == z3.unsat:
        return True, None
    if r == z3.sat:
        return False, s.model()
    return None, None


def main():
    import argparse
    ap = argparse.ArgumentParser()
    ap.add_argument("mode", choices=["ct", "erase"])
    ap.add_argument("ll")
    ap.add_argument("--fn", default="client")
    ap.add_argument("--n", type=int, default=4)
    ap.add_argument("--erase-off", type=int, default=0)
    ap.add_argument("--erase-len", type=int, default=0)
    ap.add_argument("--unit", type=int, default=1)
    ap.add_argument("--zero", action="store_true")
    ap.add_argument("--nonzero-fill", action="store_true")
    a = ap.parse_args()
    t0 = time.time()
    out = {"mode": a.mode, "ll": a.ll, "fn": a.fn, "n": a.n, "findings": [], "ok": False}
    try:
        mod = Module(open(a.ll).read())
        ex = Exec(mod, a.mode)
        if a.mode == "ct":
            r1 = ex.new_region(a.n, "secretA", [z3.BitVec("a_%d" % i, 8) for i in range(a.n)])
            r2 = ex.new_region(a.n, "secretB", [z3.BitVec("b_%d" % i, 8) for i in range(a.n)])
            ex.secrets = set(["a_%d" % i for i in range(a.n)] + ["b_%d" % i for i in range(a.n)])
            f = mod.funcs[a.fn]
            args = [P(r1, 0), P(r2, 0), a.n, mask(64), mask(64)][:len(f.params)]
            ret = ex.run(a.fn, args)
            out["returned"] = str(ret)[:200]
        else:
            ex.nonzero_fill = a.nonzero_fill
            ret = ex.run(a.fn, [])
            # lifetime of a stack buffer ends at the return of client
            if ex.fill_info and not ex.erase_checks:
                ex.on_lifetime_end(ex.fill_info["reg"], "return")
            if not ex.fill_info:
                raise Unsupported("the secret never reached memory (no vh_fill, no store of a vh_secret8 value)")
            fi = ex.fill_info
            if fi.get("by") == "stores":  # byte i of the buffer received the i-th secret byte
                fi["syms"] = [z3.BitVec("sec8_%d" % (fi["off"] + i), 8) for i in range(fi["n"])]
            val = z3.BitVec("fillvalue", 32)
            bad = []
            for why, snapshot in ex.erase_checks:
                for i in range(fi["n"]):
                    byte = snapshot[fi["off"] + i]
                    if isinstance(byte, tuple):
                        bad.append({"byte": i, "why": why, "problem": "pointer bytes"})
                        continue
                    if a.erase_off <= i < a.erase_off + a.erase_len:
                        k = (i - a.erase_off) % a.unit
                        exp = 0 if a.zero else z3.Extract(8 * k + 7, 8 * k, val)
                        ok, mdl = prove_eq(byte, exp)
                        if ok is not True:
                            bad.append({"byte": i, "why": why, "problem": "erased byte does not hold the fill value for every fill value and prior content",
                                        "model": str(mdl)[:200] if mdl is not None else None})
                    else:
                        ok, mdl = prove_eq(byte, fi["syms"][i])
                        if ok is not True:
                            bad.append({"byte": i, "why": why, "problem": "byte outside the requested range changed"})
            ex.solver_queries += fi["n"]
            for b in bad[:20]:
                ex.findings.append({"kind": "erase", "msg": b["problem"], "byte": b["byte"], "when": b["why"], "model": b.get("model")})
            out["erase_points"] = [w for w, _ in ex.erase_checks]
        out["findings"] = ex.findings
        out["steps"] = ex.steps
        out["solver_queries"] = ex.solver_queries
        out["solver_time_s"] = round(ex.solver_time, 3)
        out["ok"] = True
    except Unsupported as e:
        out["unsupported"] = str(e)
        try:
            out["findings"] = ex.findings
            out["where"] = getattr(ex, "where", None)
            out["steps"] = ex.steps
            out["solver_queries"] = ex.solver_queries
        except Exception:
            pass
    out["secs"] = round(time.time() - t0, 2)
    print(json.dumps(out, default=str))


if __name__ == "__main__":
    main()
