"""special.py - properties decided (partly) by engines other than the harness job table."""
import importlib.machinery, json, os, sys, time

VERIF = os.path.dirname(os.path.dirname(os.path.abspath(__file__)))


def _check_mod():
    return sys.modules.get("__main__")


def c12(prop, tier, seed, a):
    from . import c12_statics, findings
    t0 = time.time()
    chk = _check_mod()
    st = c12_statics.run(prop, tier, seed, a)
    extra = {
        "static_inventory": {"translation_units": st["tus"], "writable_static_objects": len(st["objects"]),
                             "with_write_references": sum(1 for o in st["objects"] if o.get("written")),
                             "reachability_queries": st["queries"], "known": st["known"],
                             "violations": [{"object": v["object"], "tu": v["tu"]} for v in st["violations"]],
                             "build_errors": st["errors"][:10], "secs": round(st["secs"], 1)},
        "assumptions_extra": ["C12 is decided through its schedule-independent reformulation: no call leaves a footprint in static "
                              "storage; real interleavings are not explored (CBMC refuses pointer-rich threaded programs)",
                              "reachability of a writing instruction is asked with the containing function as entry point and "
                              "fully nondeterministic arguments (no caller precondition)"],
    }
    jobs = chk.collect_jobs(prop, tier, getattr(a, "fn", None), None)
    for l in st["lines"]:
        print(l)
    rc = 1 if st["violations"] else 0
    if jobs:
        rc2, _ = chk.run_jobs(prop, tier, seed, jobs, a, t0, extra_evidence=extra)
        rc = rc or rc2
        if st["violations"]:
            # evidence written by run_jobs counts only job violations: patch the total
            p = os.path.join(VERIF, "evidence", prop + ".json")
            try:
                ev = json.load(open(p))
                ev["violations"] = ev.get("violations", 0) + len(st["violations"])
                json.dump(ev, open(p, "w"), indent=1)
            except Exception:
                pass
    return rc


HANDLERS = {"C12": c12}
REPLAYERS = {}
