"""special.py - properties decided (partly) by engines other than the harness job table."""
import importlib.machinery, json, os, sys, time

VERIF = os.path.dirname(os.path.dirname(os.path.abspath(__file__)))


def _check_mod():
    return sys.modules.get("__main__")


def c12(prop, tier, seed, a):
    from . import c12_statics, findings
    t0 = time.time()
    chk = _check_mod()
    st = c12_statics.run(prop, tier, seed, a)
    extra = {
        "static_inventory": {"translation_units": st["tus"], "writable_static_objects": len(st["objects"]),
                             "with_write_references": sum(1 for o in st["objects"] if o.get("written")),
                             "reachability_queries": st["queries"], "known": st["known"],
                             "violations": [{"object": v["object"], "tu": v["tu"]} for v in st["violations"]],
                             "build_errors": st["errors"][:10], "secs": round(st["secs"], 1)},
        "assumptions_extra": ["C12 is decided through its schedule-independent reformulation: no call leaves a footprint in static "
                              "storage; real interleavings are not explored (CBMC refuses pointer-rich threaded programs)",
                              "reachability of a writing instruction is asked with the containing function as entry point and "
                              "fully nondeterministic arguments (no caller precondition)"],
    }
    jobs = chk.collect_jobs(prop, tier, getattr(a, "fn", None), None)
    for l in st["lines"]:
        print(l)
    rc = 1 if st["violations"] else 0
    if jobs:
        rc2, _ = chk.run_jobs(prop, tier, seed, jobs, a, t0, extra_evidence=extra)
        rc = rc or rc2
        if st["violations"]:
            # evidence written by run_jobs counts only job violations: patch the total
            p = os.path.join(VERIF, "evidence", prop + ".json")
            try:
                ev = json.load(open(p))
                ev["violations"] = ev.get("violations", 0) + len(st["violations"])
                json.dump(ev, open(p, "w"), indent=1)
            except Exception:
                pass
    return rc


HANDLERS = {"C12": c12}
REPLAYERS = {}


def c19(prop, tier, seed, a):
    """result half: CBMC jobs (family tsafe); data-independence half: E2 executor on clang's IR at O0..O3"""
    from . import irchecks, core
    t0 = time.time()
    chk = _check_mod()
    res = irchecks.c19_ct(tier)
    viol, unsup, nq, nok = [], [], 0, 0
    repdir = os.path.join(VERIF, "evidence", "replay")
    os.makedirs(repdir, exist_ok=True)
    for f in os.listdir(repdir):
        if f.startswith(prop + "-ct"):
            os.unlink(os.path.join(repdir, f))
    k = 0
    for r in res:
        nq += r.get("solver_queries", 0) or 0
        fs = [f for f in r.get("findings", []) if f["kind"] in ("branch", "address", "division")]
        if fs:
            k += 1
            rp = irchecks.c19_replay(fs[0], r, repdir, k) if fs[0]["kind"] == "branch" and k <= 4 else {"confirmed": None, "note": "not replayed"}
            rec = {"fn": r["fn"], "opt": "O" + r["opt"], "n": r["n"], "finding": fs[0], "replay_result": rp}
            if rp.get("confirmed") or (rp.get("confirmed") is None and k > 4):
                viol.append(rec)
            else:
                unsup.append(dict(rec, note="dependence found on the IR but instruction counts did not differ natively"))
        elif not r.get("ok"):
            unsup.append({"fn": r.get("fn"), "opt": r.get("opt"), "n": r.get("n"), "note": r.get("unsupported")})
        else:
            nok += 1
    lines = []
    for i, v in enumerate(viol[:6]):
        path = os.path.join(repdir, "%s-ct-%d.json" % (prop, i))
        json.dump(v, open(path, "w"), indent=1, default=str)
        lines.append("VIOLATION property=%s replay=%s" % (prop, path))
        print("  violation: %s at %s, n=%d: %s (%s)" % (v["fn"], v["opt"], v["n"], v["finding"]["msg"], v["finding"].get("where")))
    extra = {"data_independence": {"engine": "llsym (own executor of clang-14 IR, z3)", "functions": [c[0] for c in irchecks.CT_FUNCS],
                                   "runs": len(res), "independent": nok, "violations": len(viol), "undecided": unsup[:10],
                                   "solver_queries": nq,
                                   "question": "for every branch/switch condition, load/store address and division operand: can it take two "
                                               "different values for two contents of the regions (n fixed)?"},
             "assumptions_extra": ["data independence is decided on clang-14's scalar IR (-fno-vectorize -fno-slp-vectorize -fno-unroll-loops) at the "
                                   "listed -O levels; gcc and the machine-code lowering (cmov vs branch) are outside the claim"]}
    jobs = chk.collect_jobs(prop, tier, getattr(a, "fn", None), None)
    for l in lines:
        print(l)
    rc2, _ = chk.run_jobs(prop, tier, seed, jobs, a, t0, extra_evidence=extra)
    if viol:
        _bump(prop, len(viol))
    print("%s data independence: %d executions, %d independent, %d violations, %d undecided" % (prop, len(res), nok, len(viol), len(unsup)))
    return 1 if (viol or rc2) else 0


def _bump(prop, n):
    p = os.path.join(VERIF, "evidence", prop + ".json")
    try:
        ev = json.load(open(p))
        ev["violations"] = ev.get("violations", 0) + n
        json.dump(ev, open(p, "w"), indent=1)
    except Exception:
        pass


def c18(prop, tier, seed, a):
    from . import irchecks, core, evidence, findings
    t0 = time.time()
    res, errs = irchecks.c18(tier)
    repdir = os.path.join(VERIF, "evidence", "replay")
    os.makedirs(repdir, exist_ok=True)
    for f in os.listdir(repdir):
        if f.startswith(prop + "-"):
            os.unlink(os.path.join(repdir, f))
    viol, unsup, nok, nq, st = [], [], 0, 0, 0.0
    k = 0
    seen = set()
    for r in res:
        nq += r.get("solver_queries", 0) or 0
        st += r.get("solver_time_s", 0) or 0
        fs = [f for f in r.get("findings", []) if f["kind"] == "erase"]
        if fs:
            key = (r["eraser"], r["storage"], r["cfg"], fs[0]["msg"])
            rec = {k2: r.get(k2) for k2 in ("eraser", "storage", "size", "off", "len", "opt", "cfg", "client", "final_ir", "unit", "zero")}
            rec["finding"] = fs[0]
            if key in seen:
                continue
            seen.add(key)
            k += 1
            rp = irchecks.c18_replay(r, k) if k <= 6 else {"confirmed": None, "note": "not replayed"}
            rec["replay_result"] = rp
            if rp.get("confirmed") is False:
                unsup.append(dict(rec, note="IR verdict not reproduced natively"))
            else:
                viol.append(rec)
        elif not r.get("ok") and r.get("unsupported") == "out of bounds store":
            # the erase stored outside the object it was given: more than the requested bytes are changed
            key = (r["eraser"], r["storage"], r["cfg"], "oob")
            if key in seen:
                continue
            seen.add(key)
            rec = {k2: r.get(k2) for k2 in ("eraser", "storage", "size", "off", "len", "opt", "cfg", "client", "final_ir", "unit", "zero")}
            rec["finding"] = {"kind": "erase", "msg": "store outside the erased object (" + str(r.get("where"))[:80] + ")", "byte": None}
            k += 1
            rp = irchecks.c18_replay(r, k) if k <= 6 else {"confirmed": None, "note": "not replayed"}
            rec["replay_result"] = rp
            if rp.get("confirmed") is False:
                unsup.append(dict(rec, note="IR verdict not reproduced natively"))
            else:
                viol.append(rec)
        elif not r.get("ok"):
            unsup.append({k2: r.get(k2) for k2 in ("eraser", "storage", "size", "opt", "cfg", "unsupported", "where")})
        else:
            nok += 1
    lines = []
    for i, v in enumerate(viol[:8]):
        path = os.path.join(repdir, "%s-%s-%d.json" % (prop, v["eraser"], i))
        json.dump(v, open(path, "w"), indent=1, default=str)
        lines.append("VIOLATION property=%s replay=%s" % (prop, path))
        print("  violation: %s (%s buffer, client -O%s, %s): %s at byte %s" % (v["eraser"], v["storage"], v["opt"], v["cfg"], v["finding"]["msg"], v["finding"].get("byte")))
    kf = findings.load()
    for e in kf.open_for(prop):
        print("KNOWN-FINDING: property=%s %s" % (prop, e["what"]))
    for l in lines:
        print(l)
    samples = [{k2: r.get(k2) for k2 in ("eraser", "storage", "size", "off", "len", "opt", "cfg", "ok", "steps", "solver_queries", "erase_points")} for r in res[:10]]
    ev = {"property_id": prop, "tier": tier, "seed": seed, "level": "model_checking",
          "coverage": {"evaluations": len(res), "distinct_nontrivial": nok + len(viol),
                       "rule": "one evaluation = one generated client program (eraser x storage class x object size/offset/length) compiled by clang-14 at one "
                               "-O level, linked with the library IR (separately compiled at -O2, or whole-program optimised = LTO), executed symbolically "
                               "from client() to the end of the buffer's lifetime; non-trivial when the executor reached that point and the solver decided "
                               "every byte of the object",
                       "samples": samples, "obligations": len(res), "discharged": nok, "solver_queries": nq, "solver_time_s": round(st, 2),
                       "undecided": unsup[:20], "n_undecided": len(unsup), "build_errors": errs,
                       "violations": [{k2: v.get(k2) for k2 in ("eraser", "storage", "opt", "cfg", "finding")} for v in viol[:10]],
                       "functions_encoded": [e[0] for e in irchecks.ERASERS] + ["mem_prim_set", "mem_prim_set16", "mem_prim_set32"],
                       "bounds": "object sizes 8..136 bytes, erase offset/length slices, fill value and prior contents symbolic; clang-14 -O0..-O3, "
                                 "non-LTO and LTO (llvm-link + opt internalize,default<O2|O3>)", "exhaustive": False},
          "assumptions": ["clang-14 pipelines only (gcc's optimiser is outside the claim: no IR an offline tool here can execute)",
                          "scalar code generation (-fno-vectorize -fno-slp-vectorize -fno-unroll-loops)",
                          "fences, inline-asm barriers and explicit_bzero are modelled by their contract (no-op / zero n bytes)",
                          "the machine-code lowering of the final IR is trusted"],
          "wall_s": round(time.time() - t0, 1), "violations": len(viol)}
    if not getattr(a, "no_evidence", False):
        os.makedirs(os.path.join(VERIF, "evidence"), exist_ok=True)
        json.dump(ev, open(os.path.join(VERIF, "evidence", prop + ".json"), "w"), indent=1, default=str)
    print("%s %s: %d client programs, %d erased as required, %d violations, %d undecided, %.0fs" % (prop, tier, len(res), nok, len(viol), len(unsup), time.time() - t0))
    return 1 if viol else 0


HANDLERS["C19"] = c19
HANDLERS["C18"] = c18
