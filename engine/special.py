"""special.py - properties decided by engines other than the harness job table."""
HANDLERS = {}
REPLAYERS = {}
