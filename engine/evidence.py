"""evidence.py - write evidence/<id>.json (EVIDENCE.schema.json, level model_checking, fallback keys)."""
import json, os

VERIF = os.path.dirname(os.path.dirname(os.path.abspath(__file__)))


def write(prop, tier, seed, jobs, results, violations, known_hits, unconfirmed, inconclusive, wall, extra, kf,
          level="model_checking"):
    evaluations = len(results)
    nontrivial = 0
    fns = set()
    solver = 0.0
    samples = []
    nprops = 0
    for j, r in zip(jobs, results):
        if not r or "job_error" in r:
            continue
        solver += r.get("cbmc_secs", 0) or 0
        if r.get("verdict") in ("HOLDS", "FAILED") and r.get("n_properties", 0) > 0:
            w = r.get("witness")
            if w is None or w.get("reached", 0) > 0:
                nontrivial += 1
        nprops += r.get("n_properties", 0) or 0
        fns.add(j.fn)
        if len(samples) < 12 and r.get("verdict"):
            samples.append({"job": j.jid, "function": j.fn, "bounds": j.bounds, "variant": j.variant,
                            "verdict": r.get("verdict"), "solver_s": r.get("cbmc_secs"),
                            "assertions_checked": r.get("n_properties"), "witness": r.get("witness"),
                            "flags": (r.get("cmd") or "")[-300:]})
    cov = {
        "evaluations": evaluations,
        "distinct_nontrivial": nontrivial,
        "rule": "one evaluation = one CBMC query (one harness x function x layout x geometry slice x config variant) over "
                "symbolic inputs within the stated bounds; counted non-trivial when the solver returned a verdict, the query "
                "contained >=1 reachable assertion and (where a witness twin was run) its reachability witnesses were hit",
        "samples": samples or [{"note": "no samples"}],
        "obligations": evaluations,
        "discharged": sum(1 for r in results if r and r.get("verdict") == "HOLDS"),
        "assertions_checked_total": nprops,
        "functions_encoded": sorted(fns),
        "solver_time_s": round(solver, 1),
        "inconclusive": inconclusive[:50],
        "n_inconclusive": len(inconclusive),
        "unconfirmed_counterexamples": [{k: u.get(k) for k in ("job", "description", "loc")} for u in unconfirmed[:30]],
        "known_findings_hit": known_hits[:50],
        "known_findings_open": [e["id"] for e in kf.open_for(prop)] if kf else [],
        "violations": [{k: v.get(k) for k in ("job", "fn", "description", "loc")} for v in violations[:30]],
        "exhaustive": False,
    }
    if extra:
        cov.update(extra)
    ev = {
        "property_id": prop, "tier": tier, "seed": seed, "level": level, "coverage": cov,
        "assumptions": ASSUME_COMMON + (extra or {}).get("assumptions_extra", []),
        "wall_s": round(wall, 1), "violations": len(violations),
    }
    cov.pop("assumptions_extra", None)
    os.makedirs(os.path.join(VERIF, "evidence"), exist_ok=True)
    json.dump(ev, open(os.path.join(VERIF, "evidence", prop + ".json"), "w"), indent=1, default=str)


ASSUME_COMMON = [
    "bounded: every verdict holds only inside the per-job bounds listed in coverage.samples[].bounds / the unwindset; "
    "--unwinding-assertions on, a failed unwinding assertion or timeout is reported as inconclusive, never as success",
    "libc functions are replaced by the explicit models in /verif/models (diff-tested against glibc, not proved)",
    "malloc does not fail (except in C20 harnesses); __builtin_object_size is unknown inside the library under goto-cc",
    "cross-object pointer '<' in library sources is rewritten to uintptr_t comparison (allocation order = address order)",
    "counterexamples are reported only when they reproduce natively (gcc build of the same sources, guard pages)",
]
