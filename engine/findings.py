"""findings.py - known_findings.json: genuine defects of the pinned tree that are recorded, not repaired.

Entry:
 {"id": "...", "property": "C02", "fn": "<regex on function-table name>", "status": "open"|"fixed",
  "kind": "site"|"input",
  "site": {"function": "_strnlen_s_chk", "text": "while (*str && smax)"},   # kind=site: failing instruction
  "predicate": "slen == 0",                                                 # kind=input: C expr over harness vars
  "jobs": "<regex on job id>" (optional), "what": "...", "commit": "<sha>" (fixed entries)}
A 'fixed' entry suppresses nothing.  The file is never written at run time.
"""
import json, os, re

PATH = os.path.join(os.path.dirname(os.path.dirname(os.path.abspath(__file__))), "known_findings.json")


class Findings:
    def __init__(self, entries):
        self.entries = entries

    def open_for(self, prop):
        return [e for e in self.entries if e.get("status") == "open" and e["property"] == prop]

    def applies(self, e, fn, jid=None):
        if not re.fullmatch(e.get("fn", ".*"), fn or ""):
            return False
        if jid and e.get("jobs") and not re.search(e["jobs"], jid):
            return False
        return True

    def exclusion(self, prop, fn, jid=None):
        return [e["predicate"] for e in self.open_for(prop)
                if e.get("kind") == "input" and self.applies(e, fn, jid)]

    def defines_for(self, prop, fn, jid=None):
        out = []
        for e in self.open_for(prop):
            if e.get("kind") == "relax" and self.applies(e, fn, jid):
                out += e.get("defines", [])
        return out

    def match_site(self, prop, fn, failure):
        loc = failure.get("loc") or {}
        for e in self.open_for(prop):
            if e.get("kind") != "site" or not self.applies(e, fn):
                continue
            s = e["site"]
            if s.get("function") and s["function"] != loc.get("function"):
                continue
            if s.get("desc") and s["desc"] not in failure.get("description", ""):
                continue
            if s.get("text"):
                try:
                    line = open(loc["file"], errors="replace").read().splitlines()[int(loc["line"]) - 1]
                except Exception:
                    continue
                if _norm(s["text"]) not in _norm(line):
                    continue
            return e
        return None


def _norm(s):
    return re.sub(r"\s+", "", s)


def load():
    if not os.path.exists(PATH):
        return Findings([])
    return Findings(json.load(open(PATH)).get("findings", []))
