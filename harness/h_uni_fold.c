/* h_uni_fold.c - C17(d): for every 32-bit value cp: towfc_s emits 2 (3) characters iff iswfc(cp) announces 2 (3);
 * every table index stays in bounds (pointer checks); the result is terminated. */
#include "safeclib_private.h"
#define VH_INPUTS(S, A) S(unsigned, cp)
#include "vh.h"
VH_MAIN_BEGIN
    uint32_t cp = in.cp;
    wchar_t *dest = (wchar_t *)vh_alloc(4 * sizeof(wchar_t));
    dest[0] = dest[1] = dest[2] = dest[3] = 0x5a5a;
    set_str_constraint_handler_s(vh_handler);
    int announced = iswfc(cp);
    int r = _towfc_s_chk(dest, 4, cp, BOS_UNKNOWN);
    CHECK("C17", announced >= 0 && announced <= 3, "iswfc out of range");
    if (announced == 2 || announced == 3) CHECK("C17", r == announced, "towfc_s emits a different number of characters than iswfc announces");
    if (r == 2 || r == 3) CHECK("C17", announced == r, "towfc_s emits 2/3 characters for a code point iswfc announces as single");
    if (r == 2) CHECK("C17", dest[0] != 0 && dest[1] != 0 && dest[2] == 0, "2-character folding not terminated / contains NUL");
    if (r == 3) CHECK("C17", dest[0] != 0 && dest[1] != 0 && dest[2] != 0 && dest[3] == 0, "3-character folding not terminated / contains NUL");
    REACH("end");
VH_MAIN_END
