/* h_fmtn.c - C09 for the entry points that hand the format to libc (wide printf family, all scanf_s functions, vprintf_s,
 * vfprintf_s).  The format is a fully symbolic string of at most FL characters over an alphabet that contains every
 * character the directive grammar distinguishes; libc is the contract model of models/fmt_models.c.
 * C02 (FLEN slices): the format is an exact object; every read of the scanner, the entry and the libc model is bounds-checked.
 * Assertion: the model never performed a store; a format with an n conversion is rejected before libc is called. */
#include "safeclib_private.h"
#include "safe_lib.h"
#include <stdarg.h>
#ifndef FL
#define FL 6
#endif
#define VH_INPUTS(S, A) A(unsigned char, f, FL) S(unsigned char, flen)
#include "vh.h"
extern int vh_libc_called, vh_n_store;
int vh_ref_has_n(const char *f, int is_scanf);
int vh_ref_has_n_w(const wchar_t *f, int is_scanf);
#define NALPHA 22
static const char ALPHA[NALPHA] = {'%', 'n', 'l', 'h', '5', '*', '.', 'd', 'a', ' ', '$', '[', ']', 'Z', '1', 's', '0', '-', '+', '#', '\'', 'I'};
static int N = 0x5a5a;
#if VH_CBMC
static FILE vh_file;
#define VH_STREAM (&vh_file)
#else
#define VH_STREAM stdin
#endif
#if WIDE
typedef wchar_t CH;
#define HAS_N(f) vh_ref_has_n_w(f, SCANF)
#else
typedef char CH;
#define HAS_N(f) vh_ref_has_n(f, SCANF)
#endif
static CH fmtbuf[FL + 1];
static wchar_t wdest[8];
static const CH inbuf[4] = {'1', ' ', 'a', 0};
#define V0(NAME, CALLEE) static int NAME(const CH *fmt, ...) { va_list ap; va_start(ap, fmt); int r = CALLEE; va_end(ap); return r; }
#if WIDE
V0(w_vswprintf, _vswprintf_s_chk(wdest, 8, BOS_UNKNOWN, fmt, ap))
V0(w_vsnwprintf, _vsnwprintf_s_chk(wdest, 8, BOS_UNKNOWN, fmt, ap))
V0(w_vfwprintf, vfwprintf_s(VH_STREAM, fmt, ap))
V0(w_vwprintf, vwprintf_s(fmt, ap))
V0(w_vswscanf, vswscanf_s(inbuf, fmt, ap))
V0(w_vfwscanf, vfwscanf_s(VH_STREAM, fmt, ap))
V0(w_vwscanf, vwscanf_s(fmt, ap))
#else
V0(n_vprintf, vprintf_s(fmt, ap))
V0(n_vfprintf, vfprintf_s(VH_STREAM, fmt, ap))
V0(n_vsscanf, vsscanf_s(inbuf, fmt, ap))
V0(n_vfscanf, vfscanf_s(VH_STREAM, fmt, ap))
V0(n_vscanf, vscanf_s(fmt, ap))
#endif
VH_MAIN_BEGIN
#ifdef FLEN /* C02 slice: the format is an exact object of FLEN characters + terminator (natively flush against a guard page) */
    unsigned flen = FLEN;
    CH *fx = (CH *)vh_alloc((FLEN + 1) * sizeof(CH));
    for (unsigned i = 0; i < FLEN; i++) fx[i] = (CH)ALPHA[in.f[i] % NALPHA];
    fx[FLEN] = 0;
    const CH *fmt = fx;
    (void)flen; (void)fmtbuf;
#else
    unsigned flen = in.flen % (FL + 1);
    for (unsigned i = 0; i < FL; i++)
        fmtbuf[i] = (i < flen) ? (CH)ALPHA[in.f[i] % NALPHA] : 0;
    fmtbuf[FL] = 0;
    const CH *fmt = fmtbuf;
#endif
    set_str_constraint_handler_s(vh_handler);
    vh_libc_called = 0;
    vh_n_store = 0;
    int rc = CALL;
    (void)rc;
#if VH_CBMC
    CHECK("C09", !vh_n_store, "the format reached libc with an n conversion in it: %n would be executed");
#endif
    CHECK("C09", N == 0x5a5a, "sentinel argument modified");
#if VH_CBMC
    /* model-level consequences (the native replay has the real libc: there only the sentinel counts) */
    if (HAS_N(fmt)) {
        CHECK("C09", vh_libc_called == 0, "format with an n conversion was handed to libc");
        CHECK("C09", vh_h_count >= 1, "format with an n conversion: constraint handler not invoked");
    }
#endif
    REACH("end");
#ifdef WITNESS
    if (vh_libc_called) REACH("libc reached");
    if (HAS_N(fmt)) REACH("has n");
#endif
VH_MAIN_END
