/* h_query.c - C10 (+C02 reads via exact objects, C05 no-handler clause): read-only query functions on valid operands.
 * dest: exact object of DN elements, NUL at a symbolic position < dmax (dmax symbolic <= DN); src likewise (SN elements).
 * Characters from a 6-symbol alphabet {NUL, 'a', 'b', 'A', '1', 0xE9} (symbolic choice per position).
 * QK selects the function's reference semantics (written from the documentation of the standard counterpart). */
#include "safeclib_private.h"
#include "safe_lib.h"
#define QK_STRSTR 1
#define QK_CSPN 2
#define QK_SPN 3
#define QK_CHR 4
#define QK_RCHR 5
#define QK_FIRSTCHAR 6
#define QK_STRCMP 7
#define QK_MEMCMP 8
#define QK_MEMCHR 9
#define QK_MEMRCHR 10
#define QK_NLEN 11
#define QK_PREFIX 12
#define QK_ISDIGIT 13
#define QK_LASTCHAR 14
#define QK_CASESTR 15
#define QK_CASECMP 16
#define QK_CMPFLD 17
#define QK_FIRSTDIFF 18
#define QK_FIRSTSAME 19
#define QK_LASTDIFF 20
#define QK_LASTSAME 21
#define QK_PBRK 22
#define QK_CLASS 23 /* CLSK: 1 alphanumeric 2 ascii 3 hex 4 lowercase 5 uppercase 6 mixedcase */
#define QK_WCMP 24  /* wcscmp_s / wcsncmp_s / wmemcmp_s style: sign of the first difference of wchar_t elements */
#ifndef DN
#define DN 4
#endif
#ifndef SN
#define SN 3
#endif
#define VH_INPUTS(S, A) S(size_t, dmax) S(size_t, slen) S(int, ch) A(unsigned char, d, DN) A(unsigned char, s, SN) \
    S(unsigned char, dbos) S(unsigned char, sbos)
#include "vh.h"
static const unsigned ALPHA[6] = {0, 'a', 'b', 'A', '1', 0xE9};
#ifndef WSTOPNUL
#define WSTOPNUL 1
#endif
#define BYTES (QK == QK_MEMCMP || QK == QK_MEMCHR || QK == QK_MEMRCHR || (QK == QK_WCMP && !WSTOPNUL))

static int lc(int c) { return (c >= 'A' && c <= 'Z') ? c + 32 : c; }

VH_MAIN_BEGIN
    size_t dmax = in.dmax, slen = in.slen;
    ASSUME(dmax >= 1 && dmax <= DN && slen >= 1 && slen <= SN);
    T *dest = (T *)vh_alloc(DN * sizeof(T));
    T *src = (T *)vh_alloc(SN * sizeof(T));
    T d0[DN], s0[SN];
#ifdef FULLBYTES /* every element value (8 bits) */
    for (unsigned i = 0; i < DN; i++) d0[i] = dest[i] = (T)(char)in.d[i];
    for (unsigned i = 0; i < SN; i++) s0[i] = src[i] = (T)(char)in.s[i];
#else
    for (unsigned i = 0; i < DN; i++) d0[i] = dest[i] = (T)(char)ALPHA[in.d[i] % 6];
    for (unsigned i = 0; i < SN; i++) s0[i] = src[i] = (T)(char)ALPHA[in.s[i] % 6];
#endif
    /* valid operands: strings terminated inside dmax / slen (not required for the mem* functions) */
    unsigned dl = DN, sl = SN;
    for (unsigned i = 0; i < DN; i++) if (d0[i] == 0 && dl == DN) dl = i;
    for (unsigned i = 0; i < SN; i++) if (s0[i] == 0 && sl == SN) sl = i;
#if !BYTES && QK != QK_CMPFLD && !defined(PROP_C02) /* C02: unterminated arrays that exactly fill their declared size are first-class inputs */
    ASSUME(dl < dmax);
#if QK != QK_CHR && QK != QK_RCHR && QK != QK_FIRSTCHAR && QK != QK_LASTCHAR && QK != QK_NLEN && QK != QK_ISDIGIT && QK != QK_CLASS && \
    QK != QK_CASECMP && QK != QK_CMPFLD && !(QK >= QK_FIRSTDIFF && QK <= QK_LASTSAME)
    ASSUME(sl < slen);
#endif
#endif
#if QK == QK_CMPFLD
    ASSUME(SN >= dmax); /* two fields of dmax characters */
#endif
#if QK == QK_STRCMP || QK == QK_PREFIX || QK == QK_CASECMP || (QK >= QK_FIRSTDIFF && QK <= QK_LASTSAME)
    /* truthful src for the functions without slen: terminated, or at least dmax elements long */
    ASSUME(sl < SN || SN >= dmax);
#endif
    size_t destbos = in.dbos ? DN * sizeof(T) : BOS_UNKNOWN, srcbos = in.sbos ? SN * sizeof(T) : BOS_UNKNOWN;
    (void)srcbos;
    int ch = in.ch;
    ASSUME(ch >= 0 && ch <= 255);
    const size_t cnt = (size_t)ch; /* count argument of the n-variants */
    (void)cnt;
    ch = (int)ALPHA[ch % 6];
    /* any character between 'Z' and 'a' (0x5B..0x60) in an operand: used by a known-finding predicate */
    int kf_punct = 0;
    for (unsigned i = 0; i < DN; i++) if ((unsigned char)d0[i] >= 0x5B && (unsigned char)d0[i] <= 0x60) kf_punct = 1;
    for (unsigned i = 0; i < SN; i++) if ((unsigned char)s0[i] >= 0x5B && (unsigned char)s0[i] <= 0x60) kf_punct = 1;
    (void)kf_punct;
#ifdef VH_EXCLUDE
    ASSUME(!(VH_EXCLUDE));
#endif
    set_str_constraint_handler_s(vh_handler);
    set_mem_constraint_handler_s(vh_handler);
    errno_t rc = 0;
    T *res = (T *)0x1;
    rsize_t count = 0x7777;
    int cmp = 0x7777;
    (void)res; (void)count; (void)cmp;

#if QK == QK_STRSTR || QK == QK_CASESTR
#if QK == QK_CASESTR
    ASSUME(slen <= dmax); /* documented constraint of strcasestr_s */
#endif
    rc = CALL;
    {
        /* needle: src limited to slen characters */
        unsigned nl = sl < slen ? sl : (unsigned)slen;
        int found = -1;
        for (unsigned p = 0; p < DN; p++) {
            if (found >= 0 || p > dl) continue;
            int ok = p + nl <= dl;
            for (unsigned k = 0; k < SN; k++)
                if (k < nl && p + k < DN && ok) {
#if QK == QK_CASESTR
                    if (lc((unsigned char)d0[p + k]) != lc((unsigned char)s0[k])) ok = 0;
#else
                    if (d0[p + k] != s0[k]) ok = 0;
#endif
                }
            if (ok) found = (int)p;
        }
        if (found >= 0) {
            CHECK("C10", rc == EOK, "substring exists but not reported found");
            CHECK("C10", res == dest + found, "position differs from strstr's");
        } else {
            CHECK("C10", rc == ESNOTFND && res == 0, "no occurrence but a position / success returned");
        }
    }
#elif QK == QK_CSPN || QK == QK_SPN
    rc = CALL;
    {
        unsigned nl = sl < slen ? sl : (unsigned)slen, c = 0, stop = 0;
        for (unsigned i = 0; i < DN; i++) {
            if (stop || i >= dl) continue;
            int inset = 0;
            for (unsigned k = 0; k < SN; k++) if (k < nl && d0[i] == s0[k]) inset = 1;
            if (QK == QK_CSPN ? inset : !inset) stop = 1; else c++;
        }
        CHECK("C10", rc == EOK, "valid operands rejected");
        CHECK("C10", count == c, "count differs from strspn/strcspn");
    }
#elif QK == QK_CHR || QK == QK_RCHR || QK == QK_FIRSTCHAR || QK == QK_LASTCHAR
#if QK == QK_RCHR
    ASSUME(dl >= 1); /* documented: the empty string is ESZEROL */
#endif
    rc = CALL;
    {
        int first = -1, last = -1;
        unsigned lim = (QK == QK_CHR || QK == QK_RCHR) ? dl + 1 : dl; /* strchr/strrchr see the terminator */
        for (unsigned i = 0; i < DN; i++)
            if (i < lim && d0[i] == (T)(char)ch) { if (first < 0) first = (int)i; last = (int)i; }
        int want = (QK == QK_CHR || QK == QK_FIRSTCHAR) ? first : last;
        if (want >= 0) {
            CHECK("C10", rc == EOK, "character occurs but is not reported found");
            CHECK("C10", res == dest + want, "position differs from the standard function's");
        } else
            CHECK("C10", rc == ESNOTFND && res == 0, "character does not occur but a position / success returned");
    }
#elif QK == QK_STRCMP
    rc = CALL;
    {
        int want = 0;
        for (unsigned i = 0; i < DN; i++) {
            if (want != 0 || i > dl || i > sl || i >= SN) continue;
            unsigned char a = (unsigned char)d0[i], b = (unsigned char)s0[i];
            if (a != b) want = a < b ? -1 : 1;
        }
        CHECK("C10", rc == EOK, "valid operands rejected");
        CHECK("C10", (cmp < 0) == (want < 0) && (cmp > 0) == (want > 0), "sign differs from strcmp (unsigned char comparison)");
    }
#elif QK == QK_MEMCMP
    ASSUME(slen <= dmax);
    rc = CALL;
    {
        int want = 0;
        for (unsigned i = 0; i < SN; i++) {
            if (want != 0 || i >= slen) continue;
            unsigned char a = (unsigned char)d0[i], b = (unsigned char)s0[i];
            if (a != b) want = a < b ? -1 : 1;
        }
        CHECK("C10", rc == EOK, "valid operands rejected");
        CHECK("C10", (cmp < 0) == (want < 0) && (cmp > 0) == (want > 0), "sign differs from memcmp");
    }
#elif QK == QK_MEMCHR || QK == QK_MEMRCHR
    rc = CALL;
    {
        int first = -1, last = -1;
        for (unsigned i = 0; i < DN; i++)
            if (i < dmax && (unsigned char)d0[i] == (unsigned char)ch) { if (first < 0) first = (int)i; last = (int)i; }
        int want = QK == QK_MEMCHR ? first : last;
        if (want >= 0) {
            CHECK("C10", rc == EOK && res == dest + want, "position differs from memchr/memrchr");
        } else
            CHECK("C10", rc == ESNOTFND && res == 0, "byte does not occur but a position / success returned");
    }
#elif QK == QK_NLEN
    count = CALL;
    CHECK("C10", count == (dl < dmax ? dl : dmax), "length differs from strnlen");
#elif QK == QK_PREFIX
    rc = CALL;
    {
        int pre = sl >= 1 && sl <= dl;
        for (unsigned i = 0; i < SN; i++) if (i < sl && i < DN && d0[i] != s0[i]) pre = 0;
        CHECK("C10", (rc == EOK) == pre && (rc == EOK || rc == ESNOTFND), "prefix test differs");
    }
#elif QK == QK_ISDIGIT
    {
        bool r = CALL;
        int all = dl >= 1;
        for (unsigned i = 0; i < DN; i++) if (i < dl && !(d0[i] >= '0' && d0[i] <= '9')) all = 0;
        CHECK("C10", (r != 0) == (all != 0), "classification differs");
    }
#elif QK == QK_CASECMP
    rc = CALL;
    {
        int want = 0, stop = 0;
        for (unsigned i = 0; i < DN; i++) {
            if (stop || i >= dmax || i >= SN) continue;
            int a = lc((unsigned char)d0[i]), b = lc((unsigned char)s0[i]);
            if (a != b) { want = a < b ? -1 : 1; stop = 1; }
            else if (a == 0) stop = 1;
        }
        CHECK("C10", rc == EOK, "valid operands rejected");
        CHECK("C10", (cmp < 0) == (want < 0) && (cmp > 0) == (want > 0), "sign differs from strcasecmp");
    }
#elif QK == QK_CMPFLD
    rc = CALL;
    {
        int want = 0, hi = 0;
        for (unsigned i = 0; i < DN; i++) {
            if (want != 0 || i >= dmax || i >= SN) continue;
            unsigned char a = (unsigned char)d0[i], b = (unsigned char)s0[i];
            if (a != b) { want = a < b ? -1 : 1; hi = (a | b) & 0x80; }
        }
        CHECK("C10", rc == EOK, "valid operands rejected");
        CHECK("C10", (cmp == 0) == (want == 0), "fields of dmax characters: equality differs from memcmp");
        /* order of bytes above 0x7f: memcmp compares unsigned, the documentation does not say: sign checked for 7-bit differences */
        if (!hi) CHECK("C10", (cmp < 0) == (want < 0), "sign differs from memcmp");
    }
#elif QK >= QK_FIRSTDIFF && QK <= QK_LASTSAME
    rc = CALL;
    {
        int first = -1, last = -1, stop = 0;
        for (unsigned i = 0; i < DN; i++) {
            if (stop || i >= dmax || i >= SN) continue;
            if (d0[i] == 0 || s0[i] == 0) { stop = 1; continue; }
            int hit = (QK == QK_FIRSTDIFF || QK == QK_LASTDIFF) ? d0[i] != s0[i] : d0[i] == s0[i];
            if (hit) { if (first < 0) first = (int)i; last = (int)i; }
        }
        int want = (QK == QK_FIRSTDIFF || QK == QK_FIRSTSAME) ? first : last;
        if (want >= 0) {
            CHECK("C10", rc == EOK, "position exists but not reported");
            CHECK("C10", count == (rsize_t)want, "index differs");
        } else
            CHECK("C10", (rc == ESNODIFF || rc == ESNOTFND) && count == 0, "no such position but success / index returned");
    }
#elif QK == QK_PBRK
    rc = CALL;
    {
        unsigned nl = sl < slen ? sl : (unsigned)slen;
        int found = -1;
        for (unsigned i = 0; i < DN; i++) {
            if (found >= 0 || i >= dl) continue;
            for (unsigned k = 0; k < SN; k++) if (k < nl && d0[i] == s0[k]) found = (int)i;
        }
        if (found >= 0) CHECK("C10", rc == EOK && res == dest + found, "position differs from strpbrk");
        else CHECK("C10", rc == ESNOTFND && res == 0, "no character of the set occurs but a position / success returned");
    }
#elif QK == QK_CLASS
    {
        bool r = CALL;
        int all = 1;
        for (unsigned i = 0; i < DN; i++)
            if (i < dl) {
                unsigned char c = (unsigned char)d0[i];
                int dg = c >= '0' && c <= '9', lo = c >= 'a' && c <= 'z', up = c >= 'A' && c <= 'Z';
                int in = CLSK == 1 ? (dg || lo || up) : CLSK == 2 ? c < 128 : CLSK == 3 ? (dg || (c >= 'a' && c <= 'f') || (c >= 'A' && c <= 'F'))
                       : CLSK == 4 ? lo : CLSK == 5 ? up : (lo || up);
                if (!in) all = 0;
            }
        if (dl == 0 && CLSK != 2) all = 0; /* documented: the empty string is not a member */
        CHECK("C10", (r != 0) == (all != 0), "classification differs");
    }
#elif QK == QK_WCMP
#if !WSTOPNUL
    ASSUME(slen <= dmax);
#endif
    rc = CALL;
    {
        int want = 0, stop = 0;
        for (unsigned i = 0; i < DN; i++) {
            if (stop || i >= WLIM || i >= SN) continue;
            if (d0[i] != s0[i]) { want = d0[i] < s0[i] ? -1 : 1; stop = 1; }
            else if (WSTOPNUL && d0[i] == 0) stop = 1;
        }
        CHECK("C10", rc == EOK, "valid operands rejected");
        CHECK("C10", (cmp < 0) == (want < 0) && (cmp > 0) == (want > 0), "sign differs from the wide comparison");
    }
#endif
    CHECK("C10", vh_h_count == 0, "handler invoked on valid operands");
    for (unsigned i = 0; i < DN; i++) CHECK("C10", dest[i] == d0[i], "dest operand modified");
    for (unsigned i = 0; i < SN; i++) CHECK("C10", src[i] == s0[i], "src operand modified");
    REACH("end");
VH_MAIN_END
