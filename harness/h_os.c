/* h_os.c - the string producers that delegate to libc: getenv_s (FK 1), gets_s (2), strerror_s (3), asctime_s (4), ctime_s (5).
 * dest: exact object of DOBJ elements (concrete per job) holding symbolic garbage; dmax symbolic and truthful (<= DOBJ unless it
 * is a size the entry checks must reject).  libc's producers are the models of models/os_models.c returning symbolic strings.
 * Clauses: C01/C02 through the pointer checks on the exact objects (natively: guard pages), C03 C04 C05 C06 C08 as assertions. */
#include "safeclib_private.h"
#include "safe_lib.h"
#include <time.h>
#ifndef DOBJ
#define DOBJ 6
#endif
#ifndef VN
#define VN 8 /* capacity of the producer's string incl. terminator */
#endif
#define VH_INPUTS(S, A) S(size_t, dmax) S(unsigned char, dnull) S(unsigned char, bos_known) A(unsigned char, dpre, DOBJ + 1) \
    A(unsigned char, val, 64) S(unsigned char, found) S(unsigned char, name_null) S(unsigned char, len_null) S(unsigned, in_len) \
    S(unsigned char, in_fail) S(int, errnum) S(unsigned char, t_fail) S(unsigned char, tm_null) A(int, tmf, 9) S(long, gmtoff) S(long, timer)
#include "vh.h"
extern char vh_env_val[64], vh_in_buf[64], vh_errmsg[64], vh_time_str[32];
extern int vh_env_found, vh_in_eof, vh_in_fail, vh_time_fail;
extern unsigned vh_in_len, vh_in_pos;
#if FK == 3
#include "str/strerror_s.h"
#endif

VH_MAIN_BEGIN
    size_t dmax = in.dmax;
#ifdef FIX_DMAX
    dmax = in.dmax = FIX_DMAX;
#endif
    const int dnull = in.dnull & 1;
    char *dobj = (char *)vh_alloc(DOBJ);
    for (unsigned i = 0; i < DOBJ; i++) dobj[i] = (char)in.dpre[i];
    char *dest = dnull ? (char *)0 : dobj;
    const int bos_known = in.bos_known & 1;
    size_t destbos = bos_known ? (size_t)DOBJ : BOS_UNKNOWN;
#ifdef GUARD_ONLY /* slice: only sizes/pointers the entry checks must reject */
    ASSUME(dnull || dmax < GUARD_ONLY || dmax > DOBJ);
#endif
    /* truthful caller */
    ASSUME(dnull || dmax <= DOBJ || (dmax > RSIZE_MAX_STR && !bos_known) || bos_known);
    /* the producer's string: VN-1 symbolic characters, terminated inside */
    char val[VN];
    unsigned vl = VN - 1;
#ifdef VAL_PLAIN /* only the length of the producer's string is symbolic */
    ASSUME(in.in_len <= VN - 1);
    for (unsigned i = 0; i < VN; i++) val[i] = i < in.in_len ? 'x' : 0;
#else
    for (unsigned i = 0; i < VN; i++) val[i] = (i == VN - 1) ? 0 : (char)in.val[i];
#endif
    for (unsigned i = 0; i < VN; i++) if (val[i] == 0 && vl == VN - 1) vl = i;
    set_str_constraint_handler_s(vh_handler);
    errno_t rc = 0;
    const int usable = !dnull && dmax > 0 && dmax <= RSIZE_MAX_STR && dmax <= DOBJ;
    int viol = 0, ok = 0;   /* expected: constraint violation / success */
    int plain_fail = 0;     /* expected: failure status without violation (not found, end of file, libc failure) */
    const char *want = val; /* expected text on success */
    unsigned wl = vl;
    char wbuf[DOBJ + 4];
    (void)wbuf;

#if FK == 1
    for (unsigned i = 0; i < VN; i++) vh_env_val[i] = val[i];
    vh_env_found = in.found & 1;
    size_t len = 0x7777;
    size_t *lenp = (in.len_null & 1) ? (size_t *)0 : &len;
    const char *name = (in.name_null & 1) ? (const char *)0 : "NAME";
    rc = _getenv_s_chk(lenp, dest, dmax, name, destbos);
    if (dnull) viol = dmax != 0;
    else viol = dmax > RSIZE_MAX_STR || (bos_known && dmax > DOBJ);
    if (!viol && !name) viol = 1;
    if (!viol && !vh_env_found) plain_fail = 1;
    if (!viol && !plain_fail && !dnull && vl >= dmax) viol = 1; /* value + terminator does not fit (dmax == 0 included) */
    ok = !viol && !plain_fail;
    if (lenp) {
        if (ok) CHECK("C06", len == vl, "getenv_s: *len is not the length of the value");
        else CHECK("C06", len == 0, "getenv_s: *len not zeroed on failure");
    }
#elif FK == 2
    vh_in_len = in.in_len;
    ASSUME(vh_in_len <= VN - 1);
    for (unsigned i = 0; i < VN; i++) vh_in_buf[i] = (char)in.val[i];
    vh_in_pos = 0; vh_in_eof = 0; vh_in_fail = in.in_fail & 1;
    /* the line: characters before the first newline / end of stream */
    unsigned ll = vh_in_len, nl = 0;
    for (unsigned i = 0; i < VN; i++) if (i < vh_in_len && in.val[i] == '\n' && !nl) { ll = i; nl = 1; }
    ASSUME(!nl || 1);
    /* embedded NULs in the input make "the line" ambiguous through the char* interface: excluded */
    for (unsigned i = 0; i < VN; i++) if (i < ll) ASSUME(in.val[i] != 0);
    for (unsigned i = 0; i < VN; i++) val[i] = i < ll ? (char)in.val[i] : 0;
    want = val; wl = ll;
    char *ret = _gets_s_chk(dest, dmax, destbos);
    rc = ret ? EOK : (errno ? errno : -1);
    viol = dnull || dmax == 0 || dmax > RSIZE_MAX_STR || (bos_known && dmax > DOBJ);
    if (!viol && vh_in_fail) plain_fail = 1;
    if (!viol && !plain_fail && ll == 0 && !nl) plain_fail = 1; /* end of file before any character */
    if (!viol && !plain_fail && ll > dmax - 1) viol = 1;      /* line + terminator does not fit */
    ok = !viol && !plain_fail;
    if (ok) CHECK("C06", ret == dest, "gets_s: success does not return dest");
    if (viol) CHECK("C05", ret == 0, "gets_s: violation but non-null return");
#elif FK == 3
    int errnum = in.errnum;
#ifdef ERRSEL
    errnum = ERRSEL; /* slice: one of safeclib's own codes */
#else
    ASSUME(!(errnum >= ESNULLP && errnum <= ESLAST));
#endif
    for (unsigned i = 0; i < VN; i++) vh_errmsg[i] = val[i];
    if (errnum >= ESNULLP && errnum <= ESLAST) {
        want = errmsgs_s[errnum - ESNULLP];
        wl = 0;
        for (unsigned i = 0; i < 64; i++) { if (want[i] == 0) break; wl++; }
    }
    rc = _strerror_s_chk(dest, dmax, errnum, destbos);
    viol = dnull || dmax == 0 || dmax > RSIZE_MAX_STR || (bos_known && dmax > DOBJ);
    if (!viol && wl >= dmax) {
        if (dmax > 3) { /* documented truncation: first dmax-4 characters + "..." */
            for (unsigned i = 0; i < DOBJ; i++) wbuf[i] = i < dmax - 4 ? want[i] : (i < dmax - 1 ? '.' : 0);
            want = wbuf; wl = (unsigned)dmax - 1;
        } else viol = 1;
    }
    ok = !viol;
#elif FK == 4 || FK == 5
    for (unsigned i = 0; i < 26; i++) vh_time_str[i] = i < VN ? val[i] : 0;
    vh_time_fail = in.t_fail & 1;
    struct tm tm;
    tm.tm_sec = in.tmf[0]; tm.tm_min = in.tmf[1]; tm.tm_hour = in.tmf[2]; tm.tm_mday = in.tmf[3]; tm.tm_mon = in.tmf[4];
    tm.tm_year = in.tmf[5]; tm.tm_wday = in.tmf[6]; tm.tm_yday = in.tmf[7]; tm.tm_isdst = in.tmf[8]; tm.tm_gmtoff = in.gmtoff;
    tm.tm_zone = 0;
    time_t timer = (time_t)in.timer;
    const int argnull = in.tm_null & 1;
#if FK == 4
    rc = _asctime_s_chk(dest, dmax, argnull ? (struct tm *)0 : &tm, destbos);
    int range_bad = tm.tm_year < 0 || tm.tm_mon < 0 || tm.tm_yday < 0 || tm.tm_mday < 1 || tm.tm_wday < 0 || tm.tm_hour < 0 ||
                    tm.tm_min < 0 || tm.tm_sec < 0 || tm.tm_isdst < 0 || tm.tm_gmtoff < -1036800 || tm.tm_year > 8099 ||
                    tm.tm_mon > 11 || tm.tm_yday > 365 || tm.tm_mday > 31 || tm.tm_wday > 6 || tm.tm_hour > 23 || tm.tm_min > 59 ||
                    tm.tm_sec > 60 || tm.tm_isdst > 1 || tm.tm_gmtoff > 1036800;
#else
    rc = _ctime_s_chk(dest, dmax, argnull ? (time_t *)0 : &timer, destbos);
    int range_bad = timer < 0 || timer >= MAX_TIME_T_STR;
#endif
    viol = dnull || dmax < 26 || dmax > RSIZE_MAX_STR || (bos_known && (dmax > DOBJ || DOBJ < 26)) || argnull || range_bad;
    if (!viol && vh_time_fail) plain_fail = 1;
    if (!viol && !plain_fail && vl >= dmax) viol = 1;
    ok = !viol && !plain_fail;
#endif

    /* ---- common clauses */
    if (viol) {
        CHECK("C05", rc != EOK, "constraint violated but success returned");
        CHECK("C05", vh_h_count == 1, "handler not invoked exactly once for a violation");
#if FK != 2
        CHECK("C05", vh_h_code == rc || vh_h_code == -rc, "handler code differs from returned code");
#else
        CHECK("C05", vh_h_code == errno, "gets_s: handler code differs from errno");
#endif
    } else {
        CHECK("C05", vh_h_count == 0, "handler invoked without violation");
        if (ok) CHECK("C05", rc == EOK, "no constraint violated but failure returned");
        if (plain_fail) CHECK("C05", rc != EOK, "producer failed / nothing found but success returned");
    }
    if (ok && !dnull) {
        for (unsigned i = 0; i < DOBJ; i++)
            if (i <= wl && i < dmax) CHECK("C06", dest[i] == want[i], "success but dest is not the producer's string");
#if !defined(NOSLACK) && (FK == 1 || FK == 2)
        for (unsigned i = 0; i < DOBJ; i++)
            if (i > wl && i < dmax) CHECK("C08", dest[i] == 0, "stale data behind the terminator");
#endif
    }
    if (usable) {
        int z = 0;
        for (unsigned i = 0; i < DOBJ; i++) if (i < dmax && dest[i] == 0) z = 1;
        CHECK("C03", z, "dest left without terminator within dmax");
        if (rc != EOK) {
            CHECK("C04", dest[0] == 0, "failed call: dest[0] != 0");
            for (unsigned i = 0; i < DOBJ; i++)
                if (i < dmax) CHECK("C04", dest[i] == 0 || dest[i] == (char)in.dpre[i], "failed call: dest holds data the call wrote");
        }
    }
    REACH("end");
#ifdef WITNESS
    if (rc == EOK) REACH("eok");
    if (rc != EOK) REACH("fail");
#endif
VH_MAIN_END
