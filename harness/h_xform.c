/* h_xform.c - in-place string transforms and field copies of src/extstr (+ wcsset_s/wcsnset_s):
 *   XK 1 strljustify_s  2 strremovews_s  3 strnterminate_s  4 strset_s/wcsset_s  5 strnset_s/wcsnset_s  6 strzero_s
 *      7 strtolowercase_s  8 strtouppercase_s  9 strcpyfld_s  10 strcpyfldin_s  11 strcpyfldout_s
 * dest: exact object of DOBJ elements with symbolic contents; src (9-11): exact object of SOBJ elements; sizes symbolic and
 * truthful.  C01/C02 through the pointer checks on the exact objects (natively: guard pages on both sides in the two replay
 * runs); C03 C04 C05 C06 C08 as assertions against reference results written from the documentation. */
#include "safeclib_private.h"
#include "safe_lib.h"
#ifndef T
#define T char
#endif
#ifndef DOBJ
#define DOBJ 4
#endif
#ifndef SOBJ
#define SOBJ 3
#endif
#ifndef RMAX
#define RMAX RSIZE_MAX_STR
#endif
#define HAS_SRC (XK >= 9)
#define VH_INPUTS(S, A) S(size_t, dmax) S(size_t, n) S(unsigned, value) S(unsigned char, dnull) S(unsigned char, snull) \
    S(unsigned char, bos_known) S(unsigned char, order) A(T, d, DOBJ + 1) A(T, s, SOBJ + 1)
#include "vh.h"

VH_MAIN_BEGIN
    size_t dmax = in.dmax, n = in.n;
#ifdef FIX_DMAX
    dmax = in.dmax = FIX_DMAX;
#endif
    const int dnull = in.dnull & 1, snull = HAS_SRC ? (in.snull & 1) : 0, bos_known = in.bos_known & 1;
    T *dobj, *sobj = 0;
#if HAS_SRC
#ifdef FIX_ORDER
    const int order = FIX_ORDER;
#else
    const int order = in.order & 1;
#endif
    if (order) { sobj = (T *)vh_alloc(SOBJ * sizeof(T)); dobj = (T *)vh_alloc(DOBJ * sizeof(T)); }
    else { dobj = (T *)vh_alloc(DOBJ * sizeof(T)); sobj = (T *)vh_alloc(SOBJ * sizeof(T)); }
    for (unsigned i = 0; i < SOBJ; i++) sobj[i] = in.s[i];
#else
    dobj = (T *)vh_alloc(DOBJ * sizeof(T));
#endif
#ifdef ASCII_ONLY /* wide case mapping: libc's towlower/towupper are ASCII models; contents restricted accordingly */
    for (unsigned i = 0; i < DOBJ; i++) ASSUME(in.d[i] >= 0 && in.d[i] < 0x80);
#endif
    for (unsigned i = 0; i < DOBJ; i++) dobj[i] = in.d[i];
    T *dest = dnull ? (T *)0 : dobj;
    const T *src = snull ? (const T *)0 : sobj;
    (void)src;
    size_t destbos = bos_known ? DOBJ * sizeof(T) : BOS_UNKNOWN;
    /* truthful caller */
    ASSUME(dnull || dmax <= DOBJ || (dmax > RMAX && !bos_known) || bos_known);
    /* old dest: length within min(dmax, DOBJ) */
    unsigned lim = dmax < DOBJ ? (unsigned)dmax : DOBJ, dl = lim;
    int dterm = 0;
    for (unsigned i = 0; i < DOBJ; i++) if (i < lim && in.d[i] == 0 && !dterm) { dl = i; dterm = 1; }
#if HAS_SRC
    unsigned sl = SOBJ;
    int sterm = 0;
    for (unsigned i = 0; i < SOBJ; i++) if (in.s[i] == 0 && !sterm) { sl = i; sterm = 1; }
#if XK == 10 /* strcpyfldin_s: src is a string, or an array of at least slen elements */
    ASSUME(snull || sterm || SOBJ >= n || n > dmax);
#else       /* slen elements are read */
    ASSUME(snull || SOBJ >= n || n > dmax);
#endif
#endif
#if (XK == 1 || XK == 2) && !defined(PROP_C02) && !defined(PROP_C03) && !defined(PROP_C05)
    /* the termination scan of these two leaves dest[0..dmax) on such inputs: the subject of C02/C03/C05 (known finding there) */
    ASSUME(!(!dterm && dmax > 1 && dmax <= DOBJ && (dmax == DOBJ || in.d[dmax < DOBJ ? dmax : 0] == 0)));
#endif
#ifdef VH_EXCLUDE
    ASSUME(!(VH_EXCLUDE));
#endif
    set_str_constraint_handler_s(vh_handler);
    errno_t rc = 0;
    rsize_t cnt = 0x7777;
    (void)cnt;
    const int value = (int)in.value;
    const int usable = !dnull && dmax > 0 && dmax <= RMAX && dmax <= DOBJ;
    int viol = dnull || dmax == 0 || dmax > RMAX || (bos_known && dmax > DOBJ); /* the common entry constraints */
    T want[DOBJ + 1];
    for (unsigned i = 0; i < DOBJ; i++) want[i] = in.d[i];
    int full = 0; /* reference fixes every element of dest[0..dmax) (else: only up to and including the terminator) */
    unsigned wl = dl; /* reference: index of the terminator */
    (void)full; (void)wl;

#if XK == 1 || XK == 2
    rc = CALL;
    if (!viol && dmax > 1 && !dterm) viol = 1; /* ESUNTERM */
    if (!viol) {
        if (dmax <= 1) { want[0] = 0; wl = 0; }
        else {
            unsigned a = 0, b = dl;
            for (unsigned i = 0; i < DOBJ; i++) if (i == a && a < dl && (in.d[i] == ' ' || in.d[i] == '\t')) a++;
#if XK == 2
            for (unsigned i = 0; i < DOBJ; i++) if (b > a && (in.d[b - 1] == ' ' || in.d[b - 1] == '\t')) b--;
#endif
            for (unsigned i = 0; i < DOBJ; i++) want[i] = (i < b - a) ? in.d[a + i] : 0;
            wl = b - a;
        }
    }
#elif XK == 3
    cnt = CALL;
    rc = (vh_h_count ? vh_h_code : EOK);
    if (!viol) {
        wl = dl < dmax - 1 ? dl : (unsigned)dmax - 1;
        want[wl] = 0;
        CHECK("C06", cnt == wl, "strnterminate_s: returned length is not that of the terminated string");
    } else
        CHECK("C05", cnt == 0, "strnterminate_s: violation but non-zero count");
#elif XK == 4 || XK == 5
    rc = CALL;
    if (!viol && (sizeof(T) == 1 ? (unsigned)value > 255 : value > 0x10ffff)) viol = 1;
#if XK == 5
    if (!viol && n > dmax) viol = 1;
    {
        unsigned k = dl < n ? dl : (unsigned)n;
        for (unsigned i = 0; i < DOBJ; i++) if (i < k) want[i] = (T)value;
    }
#else
    for (unsigned i = 0; i < DOBJ; i++) if (i < dl) want[i] = (T)value;
#endif
    /* documented precondition: dest is null-terminated (no failure code is documented for it) */
    if (!viol && !dterm) goto done_ref;
#if defined(PROP_C08)
    ASSUME(value != 0); /* filling with the null character itself: which null "the terminator" is then is not defined */
#endif
#elif XK == 6
    rc = CALL;
    for (unsigned i = 0; i < DOBJ; i++) if (i < dl) want[i] = 0;
    wl = 0;
#elif XK == 7 || XK == 8
    rc = CALL;
#ifdef ZERO_OK /* wcslwr_s/wcsupr_s: a length of 0 is documented as EOK, nothing is looked at */
    if (dmax == 0) { viol = 0; goto done_ref; }
#endif
    for (unsigned i = 0; i < DOBJ; i++)
        if (i < dl) {
#if XK == 7
            if (in.d[i] >= 'A' && in.d[i] <= 'Z') want[i] = (T)(in.d[i] + 32);
#else
            if (in.d[i] >= 'a' && in.d[i] <= 'z') want[i] = (T)(in.d[i] - 32);
#endif
        }
    if (!viol && !dterm) goto done_ref;
#elif XK >= 9
    rc = CALL;
    if (n == 0) { viol = 0; goto done_ref0; } /* documented: slen == 0 is EOK, nothing happens */
    if (!viol && snull) viol = 1;
    if (!viol && n > dmax) viol = 1;
    full = 1;
#if XK == 9
    for (unsigned i = 0; i < DOBJ; i++) want[i] = (i < n && i < SOBJ) ? in.s[i] : 0;
#elif XK == 10
    {
        unsigned k = sl < n ? sl : (unsigned)n; /* at most slen characters of the string */
        for (unsigned i = 0; i < DOBJ; i++) want[i] = (i < k && i < SOBJ) ? in.s[i] : 0;
    }
#else
    /* field -> string: documented (and pinned by tests/test_strcpyfldout_s.c) to keep the first dmax-1 characters when slen == dmax */
    for (unsigned i = 0; i < DOBJ; i++) want[i] = (i < n && i < SOBJ && i + 1 < dmax) ? in.s[i] : 0;
#endif
#endif

    /* ---- success: the reference result */
    if (!viol && !dnull) {
        CHECK("C05", rc == EOK, "no constraint violated but failure returned");
#if XK != 3
        CHECK("C05", vh_h_count == 0, "handler invoked without violation");
#endif
        for (unsigned i = 0; i < DOBJ; i++)
            if (i < dmax && (full || i <= wl)) CHECK("C06", dest[i] == want[i], "result differs from the documented transformation");
#if !defined(NOSLACK) && (XK == 4 || XK == 5 || XK == 6)
        for (unsigned i = 0; i < DOBJ; i++)
            if (i < dmax && i > wl) CHECK("C08", dest[i] == 0, "stale data behind the terminator");
#endif
    }
done_ref:
    if (viol) {
        CHECK("C05", rc != EOK, "constraint violated but success returned");
        CHECK("C05", vh_h_count == 1, "handler not invoked exactly once for a violation");
        CHECK("C05", vh_h_code == rc, "handler code differs from returned code");
#if XK >= 9
        if (usable) {
            CHECK("C04", dest[0] == 0, "failed call: dest[0] != 0");
            for (unsigned i = 0; i < DOBJ; i++)
                if (i < dmax) CHECK("C04", dest[i] == 0 || dest[i] == in.d[i], "failed call: dest holds data the call wrote");
#ifndef NOSLACK
            /* slen > dmax is rejected before copying begins: the all-clear clause of C04 applies to the null source */
            if (snull)
                for (unsigned i = 0; i < DOBJ; i++)
                    if (i < dmax) CHECK("C04", dest[i] == 0, "failed call (null src): dest not fully cleared");
#endif
        }
        if (src)
            for (unsigned i = 0; i < SOBJ; i++) CHECK("C04", sobj[i] == in.s[i], "failed call modified src");
#endif
    }
#if XK == 1 || XK == 2 || XK == 3 || XK == 11
    if (usable) {
        int z = 0;
        for (unsigned i = 0; i < DOBJ; i++) if (i < dmax && dest[i] == 0) z = 1;
#if XK == 11
        if (n != 0)
#endif
        CHECK("C03", z, "dest left without terminator within dmax");
    }
#endif
#if XK >= 9
done_ref0:
    if (n == 0) {
        CHECK("C05", rc == EOK && vh_h_count == 0, "slen == 0 is documented as EOK");
        if (!dnull) for (unsigned i = 0; i < DOBJ; i++) CHECK("C06", dobj[i] == in.d[i], "slen == 0 modified dest");
    }
#endif
    REACH("end");
#ifdef WITNESS
    if (rc == EOK) REACH("eok");
    if (rc != EOK) REACH("fail");
#endif
VH_MAIN_END
