/* h_wdest.c - the wide formatted-output functions that write into dest through libc's vswprintf:
 * swprintf_s (WK 1), vswprintf_s (2), snwprintf_s (3, truncating), vsnwprintf_s (4, truncating).
 * dest: exact object of DOBJ wide characters (symbolic garbage), dmax symbolic and truthful; libc's text for the call is a
 * symbolic string of <= WN-1 characters (models/wdest_models.c).  C01 through the pointer checks on the exact object
 * (natively: guard pages); C03 C04 C05 C06 as assertions. */
#include "safeclib_private.h"
#include "safe_lib.h"
#include <stdarg.h>
#ifndef DOBJ
#define DOBJ 4
#endif
#define WN 8
#define VH_INPUTS(S, A) S(size_t, dmax) S(unsigned char, dnull) S(unsigned char, bos_known) S(unsigned, wlen) S(unsigned char, wfail) \
    A(wchar_t, d, DOBJ + 1) A(wchar_t, w, WN)
#include "vh.h"
extern wchar_t vh_wout[16];
extern unsigned vh_wout_len;
extern int vh_wout_fail;
#define TRUNC (WK == 3 || WK == 4)
#if WK == 2
static int call_v(wchar_t *dest, rsize_t dmax, size_t bos, const wchar_t *fmt, ...) {
    va_list ap; va_start(ap, fmt);
    int r = _vswprintf_s_chk(dest, dmax, bos, fmt, ap);
    va_end(ap); return r;
}
#elif WK == 4
static int call_v(wchar_t *dest, rsize_t dmax, size_t bos, const wchar_t *fmt, ...) {
    va_list ap; va_start(ap, fmt);
    int r = _vsnwprintf_s_chk(dest, dmax, bos, fmt, ap);
    va_end(ap); return r;
}
#endif

static const wchar_t FMT[2] = {L'x', 0};

VH_MAIN_BEGIN
    size_t dmax = in.dmax;
#ifdef FIX_DMAX
    dmax = in.dmax = FIX_DMAX;
#endif
    const int dnull = in.dnull & 1, bos_known = in.bos_known & 1;
    wchar_t *dobj = (wchar_t *)vh_alloc(DOBJ * sizeof(wchar_t));
    for (unsigned i = 0; i < DOBJ; i++) dobj[i] = in.d[i];
    wchar_t *dest = dnull ? (wchar_t *)0 : dobj;
    size_t destbos = bos_known ? DOBJ * sizeof(wchar_t) : BOS_UNKNOWN;
    ASSUME(dnull || dmax <= DOBJ || (dmax > RSIZE_MAX_WSTR && !bos_known) || bos_known);
    ASSUME(in.wlen <= WN - 1);
    vh_wout_len = in.wlen;
    vh_wout_fail = in.wfail & 1;
    for (unsigned i = 0; i < WN; i++) { vh_wout[i] = in.w[i]; if (i < in.wlen) ASSUME(in.w[i] != 0); }
    set_str_constraint_handler_s(vh_handler);
#if WK == 1
    int rc = _swprintf_s_chk(dest, dmax, destbos, FMT);
#elif WK == 3
    int rc = _snwprintf_s_chk(dest, dmax, destbos, FMT);
#else
    int rc = call_v(dest, dmax, destbos, FMT);
#endif
    const int usable = !dnull && dmax > 0 && dmax <= RSIZE_MAX_WSTR && dmax <= DOBJ;
    int viol = dnull || dmax == 0 || dmax > RSIZE_MAX_WSTR || (bos_known && dmax > DOBJ);
    int libfail = !viol && vh_wout_fail;
    int nospc = !viol && !libfail && in.wlen + 1 > dmax;
    if (viol || (nospc && !TRUNC)) {
        CHECK("C05", rc < 0, "constraint violated but no failure indication");
        CHECK("C05", vh_h_count == 1, "handler not invoked exactly once for a violation");
        CHECK("C05", vh_h_code == -rc, "handler code differs from the (negated) return value");
    } else if (!libfail) {
        CHECK("C05", rc >= 0, "no constraint violated but failure returned");
        CHECK("C05", vh_h_count == 0, "handler invoked without violation");
        /* the truncating pair with dmax == 1 cannot probe the length and documents no value: any positive count */
        if (TRUNC && nospc && dmax == 1) CHECK("C06", rc >= 1, "truncated to the empty string but no positive count returned");
        else CHECK("C06", rc == (int)in.wlen, "return value is not the length of the text");
        for (unsigned i = 0; i < DOBJ; i++)
            if (i < dmax - 1 && i < in.wlen) CHECK("C06", dest[i] == in.w[i], "stored text differs from what libc produced");
        if (!nospc) CHECK("C06", dest[in.wlen] == 0, "terminator missing behind the text");
    }
    if (libfail && !(TRUNC && dmax == 1)) CHECK("C05", rc < 0, "libc failed but success returned");
    if (usable) {
        int z = 0;
        for (unsigned i = 0; i < DOBJ; i++) if (i < dmax && dest[i] == 0) z = 1;
        CHECK("C03", z, "dest left without terminator within dmax");
        if (rc < 0) {
            CHECK("C04", dest[0] == 0, "failed call: dest[0] != 0");
#ifndef NOSLACK
            if (nospc)
                for (unsigned i = 0; i < DOBJ; i++) if (i < dmax) CHECK("C04", dest[i] == 0, "no space: dest not fully cleared");
#endif
        }
    }
    REACH("end");
#ifdef WITNESS
    if (rc >= 0) REACH("ok");
    if (rc < 0) REACH("fail");
#endif
VH_MAIN_END
