/* h_tsafe.c - C19 (result half): timingsafe_bcmp / timingsafe_memcmp on exact n-byte objects, contents symbolic. */
#include "safeclib_private.h"
#ifndef NB
#define NB 8
#endif
#define VH_INPUTS(S, A) S(size_t, n) S(unsigned char, bos1) S(unsigned char, bos2) A(unsigned char, a, NB) A(unsigned char, b, NB)
#include "vh.h"
VH_MAIN_BEGIN
    size_t n = in.n;
#ifdef FIX_N
    n = in.n = FIX_N;
#endif
    ASSUME(n <= NB);
    unsigned char *p1 = (unsigned char *)vh_alloc(n), *p2 = (unsigned char *)vh_alloc(n);
    for (unsigned i = 0; i < NB; i++)
        if (i < n) { p1[i] = in.a[i]; p2[i] = in.b[i]; }
    set_mem_constraint_handler_s(vh_handler);
    int r = CALL;
    /* reference */
    int first = -1;
    for (unsigned i = 0; i < NB; i++)
        if (i < n && first < 0 && in.a[i] != in.b[i]) first = (int)i;
#ifdef IS_BCMP
    CHECK("C19", (r == 0) == (first < 0), "timingsafe_bcmp: zero iff the regions are equal");
    CHECK("C19", r == 0 || r == 1, "timingsafe_bcmp: result is 0 or 1");
#else
    if (first < 0) CHECK("C19", r == 0, "timingsafe_memcmp: equal regions must compare 0");
    else if (in.a[first] < in.b[first]) CHECK("C19", r < 0, "timingsafe_memcmp: sign of the first differing pair (unsigned) - expected negative");
    else CHECK("C19", r > 0, "timingsafe_memcmp: sign of the first differing pair (unsigned) - expected positive");
#endif
    CHECK("C19", vh_h_count == 0, "handler invoked on valid operands");
    for (unsigned i = 0; i < NB; i++)
        if (i < n) CHECK("C19", p1[i] == in.a[i] && p2[i] == in.b[i], "operands modified");
    REACH("end");
VH_MAIN_END
