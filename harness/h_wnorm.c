/* h_wnorm.c - wcsnorm_s on short concrete strings (Hangul LV/LVT, singleton, precomposed + marks needing reordering,
 * composition exclusion) into a dest of exactly DOBJ = dmax wide characters (exact object, symbolic prefill).
 * Expected NFD/NFC from unicodedata on this run.  C01 by the pointer checks (natively guard pages); C03 C04 C05 C08 C17. */
#include "safeclib_private.h"
#include "safe_lib.h"
#include "ref_short.h"
#ifndef DOBJ
#define DOBJ 4
#endif
#define VH_INPUTS(S, A) A(wchar_t, pre, DOBJ + 1) S(unsigned char, bos_known) S(unsigned char, len_null)
#include "vh.h"
VH_MAIN_BEGIN
    const wchar_t *src = sh_src[SIDX];
    const wchar_t *want = MODE == 0 ? sh_nfd[SIDX] : sh_nfc[SIDX];
    const unsigned wl = MODE == 0 ? sh_nfd_len[SIDX] : sh_nfc_len[SIDX];
    wchar_t *dest = (wchar_t *)vh_alloc(DOBJ * sizeof(wchar_t));
#ifdef CONCRETE_PRE /* the whole run is then a concrete execution that symex folds */
    for (unsigned i = 0; i < DOBJ; i++) dest[i] = in.pre[i] = (wchar_t)(0x5a00 + i);
#else
    for (unsigned i = 0; i < DOBJ; i++) dest[i] = in.pre[i];
#endif
    const size_t dmax = DOBJ;
#ifdef BOSK /* slice: whether the library knows the object size (a symbolic destbos makes every clearing length symbolic) */
    in.bos_known = BOSK;
#endif
    size_t destbos = (in.bos_known & 1) ? DOBJ * sizeof(wchar_t) : BOS_UNKNOWN;
    set_str_constraint_handler_s(vh_handler);
    rsize_t len = 0x7777;
#ifdef COMPOSE_ONLY /* the last stage alone (public wcsnorm_compose_s) on the canonically ordered NFD string */
    len = sh_nfd_len[SIDX];
    errno_t rc = _wcsnorm_compose_s_chk(dest, dmax, sh_nfd[SIDX], &len, false, destbos);
    in.len_null = 0;
#elif defined(DECOMP_ONLY) /* the first stage alone (public wcsnorm_decompose_s): canonical decomposition without reordering */
    errno_t rc = _wcsnorm_decompose_s_chk(dest, dmax, src, (in.len_null & 1) ? (rsize_t *)0 : &len, false, destbos);
#else
    errno_t rc = _wcsnorm_s_chk(dest, dmax, src, MODE == 0 ? WCSNORM_NFD : WCSNORM_NFC, (in.len_null & 1) ? (rsize_t *)0 : &len, destbos);
#endif
    int z = -1;
    for (unsigned i = 0; i < DOBJ; i++) if (dest[i] == 0 && z < 0) z = (int)i;
    CHECK("C03", z >= 0, "dest left without terminator within dmax");
    if (rc == EOK) {
        CHECK("C05", vh_h_count == 0, "handler invoked although the call succeeded");
        CHECK("C17", wl + 1 <= dmax, "result does not fit but success returned (shortened result)");
#if !defined(DECOMP_ONLY)
        for (unsigned i = 0; i < DOBJ; i++) if (i <= wl) CHECK("C17", dest[i] == want[i], "result differs from the UAX #15 normalisation form");
#endif
        if (!(in.len_null & 1)) CHECK("C17", len == wl, "reported length differs");
#ifndef NOSLACK
        for (unsigned i = 0; i < DOBJ; i++) if (z >= 0 && i > (unsigned)z) CHECK("C08", dest[i] == 0, "stale data behind the terminator");
#endif
    } else {
        CHECK("C05", vh_h_count == 1 && vh_h_code == rc, "failure not reported exactly once with the returned code");
        CHECK("C04", dest[0] == 0, "failed call: dest[0] != 0");
#ifndef NOSLACK
        if (rc == ESNOSPC) /* met after copying began */
            for (unsigned i = 0; i < DOBJ; i++) CHECK("C04", dest[i] == 0, "failed call: dest not fully cleared");
#endif
        /* a valid string fails only for lack of space: ESNOSPC, or the documented minimum dmax >= 5 (ESLEMIN) */
        CHECK("C05", rc == ESNOSPC || (rc == ESLEMIN && dmax < 5), "a valid string can fail only for lack of space");
    }
    REACH("end");
VH_MAIN_END
