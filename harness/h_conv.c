/* h_conv.c - C15 (+ C01/C03/C04/C08 clauses) for mbstowcs_s mbsrtowcs_s wcstombs_s wcsrtombs_s wcrtomb_s wctomb_s.
 * libc's converters are the reference UTF-8 codec of models/conv_models.c (locale flag symbolic: C or C.UTF-8); the
 * reference result is computed by calling the same model directly on a private copy with unlimited room.
 * KIND: 1 mbstowcs 2 mbsrtowcs 3 wcstombs 4 wcsrtombs 5 wcrtomb 6 wctomb.  dmax is concrete per job (FIX_DMAX). */
#include "safeclib_private.h"
#include <wchar.h>
#define SN 4           /* source characters incl. terminator */
#define DN 12          /* dest capacity of the fixed object (elements) */
#define TOW (KIND == 1 || KIND == 2)
#define VH_INPUTS(S, A) S(size_t, dmax) S(size_t, len) S(unsigned char, dnull) S(unsigned char, utf8) S(int, errno0) \
    S(unsigned char, bos_known) A(unsigned char, s, 8) A(unsigned char, dfull, (DN + 2 * VH_RZ) * 4)
#include "vh.h"
#if VH_CBMC
extern int vh_utf8;
#else
#include <locale.h>
static int vh_utf8;
#endif
#if TOW
typedef wchar_t DT;
typedef char ST;
static const unsigned char MBA[12] = {0, 'a', 0xC3, 0xA9, 0xE2, 0x82, 0xAC, 0xF0, 0x9F, 0x98, 0x80, 0xFF};
#define SRCN 8
#else
typedef char DT;
typedef wchar_t ST;
static const unsigned WCA[8] = {0, 'a', 0xE9, 0x20AC, 0x1F600, 0xD800, 0x110000, 'b'};
#define SRCN SN
#endif

VH_MAIN_BEGIN
    size_t dmax = in.dmax, len = in.len;
#ifdef FIX_DMAX
    dmax = in.dmax = FIX_DMAX;
#endif
    ASSUME(dmax <= DN && len <= DN + 2);
    vh_utf8 = in.utf8 & 1;
#if !VH_CBMC
    setlocale(LC_ALL, vh_utf8 ? "C.UTF-8" : "C");
#endif
    const int dnull = in.dnull & 1;
    /* source string: exact object, terminated */
    ST *src = (ST *)vh_alloc(SRCN * sizeof(ST));
    ST ssnap[SRCN];
    for (unsigned i = 0; i < SRCN; i++) {
#if TOW
        src[i] = (ST)MBA[in.s[i] % 12];
#else
        src[i] = (ST)WCA[in.s[i] % 8];
#endif
        if (i == SRCN - 1) src[i] = 0;
        ssnap[i] = src[i];
    }
    /* dest: fixed object with red zones, symbolic garbage */
    DT *dbase = (DT *)vh_alloc((DN + 2 * VH_RZ) * sizeof(DT));
    unsigned char *db8 = (unsigned char *)dbase;
    for (unsigned i = 0; i < (DN + 2 * VH_RZ) * sizeof(DT); i++) db8[i] = in.dfull[i];
    DT *dest = dnull ? (DT *)0 : dbase + VH_RZ;
    size_t destbos = in.bos_known ? DN * sizeof(DT) : BOS_UNKNOWN;
    if (dnull) { dmax = 0; }
    /* reference: the model with unlimited room */
    DT refbuf[16];
    size_t refn;
    {
        int e0 = errno;
#if TOW
        refn = mbstowcs(refbuf, src, 16);
#else
        refn = wcstombs(refbuf, src, 16);
#endif
        errno = e0;
    }
    const int invalid = refn == (size_t)-1;
    set_str_constraint_handler_s(vh_handler);
    errno = in.errno0; /* whatever an earlier call left behind */
    size_t retval = 0x7777;
    int iret = 0x7777;
    errno_t rc;
#if KIND == 1
    rc = _mbstowcs_s_chk(&retval, dest, dmax, src, len, destbos);
#elif KIND == 2
    const char *sp = src;
    mbstate_t st;
    memset(&st, 0, sizeof st);
    rc = _mbsrtowcs_s_chk(&retval, dest, dmax, &sp, len, &st, destbos);
#elif KIND == 3
    rc = _wcstombs_s_chk(&retval, dest, dmax, src, len, destbos);
#elif KIND == 4
    const wchar_t *sp = src;
    mbstate_t st;
    memset(&st, 0, sizeof st);
    rc = _wcsrtombs_s_chk(&retval, dest, dmax, &sp, len, &st, destbos);
#elif KIND == 5
    mbstate_t st;
    memset(&st, 0, sizeof st);
    rc = _wcrtomb_s_chk(&retval, dest, dmax, src[0], &st, destbos);
#else
    rc = _wctomb_s_chk(&iret, dest, dmax, src[0], destbos);
    retval = (size_t)iret;
#endif
    (void)iret;
    const int usable = !dnull && dmax > 0;

#if defined(PROP_C01)
    for (unsigned i = 0; i < DN + 2 * VH_RZ; i++)
        if (dnull || !(i >= VH_RZ && i < VH_RZ + dmax))
            for (unsigned b = 0; b < sizeof(DT); b++)
                CHECK("C01", db8[i * sizeof(DT) + b] == in.dfull[i * sizeof(DT) + b], "write outside dest[0..dmax)");
    for (unsigned i = 0; i < SRCN; i++) CHECK("C01", src[i] == ssnap[i], "source modified");
#endif
#if defined(PROP_C03)
    if (usable) {
        int z = 0;
        for (unsigned i = 0; i < DN; i++) if (i < dmax && dest[i] == 0) z = 1;
        CHECK("C03", z, "dest left without terminator within dmax");
    }
#endif
#if defined(PROP_C04)
    if (usable && rc != EOK) {
        CHECK("C04", dest[0] == 0, "failed conversion: dest[0] != 0");
#ifndef NOSLACK
        for (unsigned i = 0; i < DN; i++) if (i < dmax) CHECK("C04", dest[i] == 0, "failed conversion: dest not fully cleared");
#endif
    }
#endif
#if defined(PROP_C08) && !defined(NOSLACK)
    if (usable && rc == EOK)
        for (unsigned i = 0; i < DN; i++)
            if (i < dmax && i >= retval) CHECK("C08", dest[i] == 0, "stale data behind the converted string");
#endif
#if defined(PROP_C15)
#if KIND <= 4
    {
        /* the standard function limited to the space available: at most min(len, dmax) elements */
        size_t lim = len < dmax ? len : dmax;
        DT ref2[16];
        int e0 = errno;
#if TOW
        size_t c = dnull ? mbstowcs((wchar_t *)0, src, 0) : mbstowcs(ref2, src, lim);
#else
        size_t c = dnull ? wcstombs((char *)0, src, 0) : wcstombs(ref2, src, lim);
#endif
        errno = e0;
        /* a len above the known object size is a documented violation of its own (EOVERFLOW) */
        const int len_viol = in.bos_known && len * sizeof(DT) > destbos;
        if (len_viol && !dnull && dmax > 0) CHECK("C15", rc != EOK, "len above the known object size accepted");
        if (!dnull && dmax > 0 && !len_viol) {
            if (c == (size_t)-1)
                CHECK("C15", rc != EOK, "invalid sequence not reported");
            else if (c < dmax) {
                CHECK("C15", rc == EOK, "valid input that fits was rejected");
                CHECK("C15", retval == c, "count differs from the standard function limited to the space available");
                for (unsigned i = 0; i < DN; i++)
                    if (i < c) CHECK("C15", dest[i] == ref2[i], "converted character differs from the standard function");
                CHECK("C15", dest[c] == 0, "converted string not terminated");
            } else if (c >= dmax)
                CHECK("C15", rc != EOK, "result fills dest completely (no room for the terminator) but success returned");
        }
        if (dnull && c != (size_t)-1) {
            /* size query: the length the converting form then needs - and success, whatever errno held before */
            CHECK("C15", retval == c, "size query returns a length different from the converted length");
#if TOW
            CHECK("C15", rc == EOK, "size query on valid input does not report success");
#endif
        }
    }
#else
    /* single character */
    {
        char one[4];
        int e0 = errno;
        int k = (int)wcrtomb(one, src[0], 0);
        errno = e0;
        if (usable && k > 0 && (size_t)k < dmax) {
            CHECK("C15", rc == EOK, "convertible character that fits was rejected");
            CHECK("C15", retval == (size_t)k, "byte count differs from the standard function");
            for (int i = 0; i < 4; i++) if (i < k) CHECK("C15", dest[i] == one[i], "converted bytes differ from the standard function");
        }
        if (usable && k < 0) CHECK("C15", rc != EOK, "unconvertible character not reported");
    }
#endif
#endif
    REACH("end");
#ifdef WITNESS
    if (rc == EOK) REACH("eok");
    if (rc != EOK) REACH("fail");
#endif
VH_MAIN_END
