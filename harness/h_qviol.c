/* h_qviol.c - C05 for the read-only query functions: generic reporting discipline on arbitrary (also invalid) arguments.
 * dest / src: exact objects of DN / SN elements holding terminated symbolic strings; dest or src may be NULL, src may alias
 * dest (same pointer), dmax / slen are arbitrary but truthful (<= object, or far above every RSIZE limit with the object
 * size unknown, or anything when the object size is known to the library).
 *   G1 the handler is invoked at most once per call
 *   G2 a call that returns EOK has not invoked the handler
 *   G3 a handler invocation carries the code the call returns (functions returning errno_t)
 *   G4 dest == NULL, dmax == 0 and a size above every limit are reported (per-function exceptions by documentation: NOREP_*) */
#include "safeclib_private.h"
#include "safe_lib.h"
#ifndef DN
#define DN 3
#endif
#ifndef SN
#define SN 3
#endif
#ifndef RK
#define RK 0 /* 0: returns errno_t; 1: returns a count / bool */
#endif
#define VH_INPUTS(S, A) S(size_t, dmax) S(size_t, slen) S(int, ch) A(unsigned char, d, DN) A(unsigned char, s, SN) \
    S(unsigned char, dbos) S(unsigned char, sbos) S(unsigned char, dnull) S(unsigned char, snull) S(unsigned char, alias)
#include "vh.h"
#define HUGE_SZ (((size_t)-1) >> 4)

VH_MAIN_BEGIN
    size_t dmax = in.dmax, slen = in.slen;
    const int dbos = in.dbos & 1, sbos = in.sbos & 1, dnull = in.dnull & 1, alias = in.alias & 1 && !dnull && DN == SN;
    const int snull = (in.snull & 1) && !alias;
    T *dobj = (T *)vh_alloc(DN * sizeof(T));
    T *sobj = (T *)vh_alloc(SN * sizeof(T));
    for (unsigned i = 0; i < DN; i++) dobj[i] = (i == DN - 1) ? 0 : (T)(char)in.d[i];
    for (unsigned i = 0; i < SN; i++) sobj[i] = (i == SN - 1) ? 0 : (T)(char)in.s[i];
    T *dest = dnull ? (T *)0 : dobj;
    T *src = snull ? (T *)0 : alias ? dobj : sobj;
    ASSUME(dnull || dmax <= DN || (dmax > HUGE_SZ && !dbos) || dbos);
    ASSUME(snull || slen <= SN || (slen > HUGE_SZ && !sbos) || sbos);
    size_t destbos = dbos ? DN * sizeof(T) : BOS_UNKNOWN, srcbos = sbos ? SN * sizeof(T) : BOS_UNKNOWN;
    (void)srcbos; (void)src; (void)slen;
    int ch = in.ch;
    const size_t cnt = (size_t)(unsigned char)in.ch;
    (void)cnt;
    set_str_constraint_handler_s(vh_handler);
    set_mem_constraint_handler_s(vh_handler);
    errno_t rc = EOK;
    T *res = (T *)0x1;
    rsize_t count = 0x7777;
    int cmp = 0x7777;
    (void)res; (void)count; (void)cmp; (void)ch;
#if RK == 0
    rc = CALL;
#else
    (void)(CALL);
#endif
    CHECK("C05", vh_h_count <= 1, "constraint handler invoked more than once by one call");
#if RK == 0
    if (rc == EOK) CHECK("C05", vh_h_count == 0, "handler invoked but the call returns EOK");
    if (vh_h_count == 1) CHECK("C05", rc != EOK && (vh_h_code == rc || vh_h_code == -rc), "handler code differs from the returned code");
#endif
#ifndef NOREP_DNULL
    if (dnull) CHECK("C05", vh_h_count == 1, "dest == NULL not reported");
#endif
#ifndef NOREP_DZERO
    if (!dnull && !snull && dmax == 0) CHECK("C05", vh_h_count == 1, "dmax == 0 not reported");
#endif
#ifndef NOREP_DHUGE
    if (!dnull && !snull && dmax > HUGE_SZ && !dbos) CHECK("C05", vh_h_count == 1, "dmax above every limit not reported");
#endif
    REACH("end");
VH_MAIN_END
