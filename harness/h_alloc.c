/* h_alloc.c - C20: running out of memory inside the library.  The real sources are compiled with
 * -Dmalloc=vh_malloc -Drealloc=vh_realloc -Dfree=vh_free; the wrappers below fail the k-th request whenever bit k of the
 * symbolic fail mask is set (so the solver chooses any subset of failing allocations) and keep a count of live blocks.
 * Scenarios (SCEN): 1 snprintf_s "%ls"   2 snprintf_s "x%lsy%d"   3 snprintf_s "%Lfz" / "%az" (sub-format copy)
 *                   7 wcsnorm_reorder_s heap mark array   8 wcsnorm_s with heap scratch string + heap mark array
 *                   4 wcsicmp_s          5 wcsnatcmp_s             6 swprintf_s/vswprintf_s/snwprintf_s/vsnwprintf_s probe (dmax >= 512)
 * Assertions: no NULL dereference (CBMC pointer checks), failure indication + dest cleared when an allocation failed,
 * nothing left allocated on any path. */
#include "safeclib_private.h"
#include "safe_lib.h"
#include <stdarg.h>
#define VH_INPUTS(S, A) S(unsigned, failmask) A(unsigned, w, 3) S(unsigned char, utf8) A(unsigned char, dfull, 40)
#include "vh.h"
/* the native replay compiles this file with the same -Dmalloc=vh_malloc ... as the library: the wrappers call the real ones */
#undef malloc
#undef realloc
#undef free
/* <stdlib.h> was read with the wrapping macros in force: declare the real functions for the wrappers below */
void *malloc(size_t);
void *realloc(void *, size_t);
void free(void *);
#if VH_CBMC
extern int vh_utf8;
#else
#include <locale.h>
static int vh_utf8;
#endif
static unsigned vh_alloc_no, vh_failed_any;
static int vh_live;
void *vh_malloc(size_t n) {
    unsigned k = vh_alloc_no++;
    if (k < 8 && ((in.failmask >> k) & 1)) { vh_failed_any = 1; return 0; }
    void *p = malloc(n);
    ASSUME(p != 0);
    vh_live++;
    return p;
}
void *vh_realloc(void *q, size_t n) {
    unsigned k = vh_alloc_no++;
    if (k < 8 && ((in.failmask >> k) & 1)) { vh_failed_any = 1; return 0; }
    void *p = realloc(q, n);
    ASSUME(p != 0);
    if (!q) vh_live++;
    return p;
}
void vh_free(void *p) {
    if (p) vh_live--;
    free(p);
}
static const unsigned WCA[6] = {0, 'a', 0xE9, 0x20AC, 0xD800, 'B'};
#if SCEN == 6
static int w_v(wchar_t *d, size_t n, const wchar_t *fmt, ...) { va_list ap; va_start(ap, fmt); int r = WCALLV; va_end(ap); return r; }
#endif

VH_MAIN_BEGIN
    vh_utf8 = in.utf8 & 1;
#if !VH_CBMC
    setlocale(LC_ALL, vh_utf8 ? "C.UTF-8" : "C");
#endif
    set_str_constraint_handler_s(vh_handler);
    int rc = 0, failure = 0, cleared = 1;
#if SCEN <= 3
    char *dbase = (char *)vh_alloc(24 + 16);
    for (unsigned i = 0; i < 40; i++) dbase[i] = (char)in.dfull[i];
    char *dest = dbase + 8;
    wchar_t *w = (wchar_t *)vh_alloc(3 * sizeof(wchar_t));
#ifdef W0
    w[0] = (wchar_t)W0; w[1] = (wchar_t)W1; w[2] = 0; /* concrete content per job: a symbolic length makes malloc(l+1) a symbolic-size object */
#else
    w[0] = (wchar_t)WCA[in.w[0] % 6]; w[1] = (wchar_t)WCA[in.w[1] % 6]; w[2] = 0;
#endif
#if SCEN == 1
    rc = _snprintf_s_chk(dest, 24, BOS_UNKNOWN, "%ls", w);
#elif SCEN == 2
    rc = _snprintf_s_chk(dest, 24, BOS_UNKNOWN, "x%lsy%d", w, 7);
#else
    rc = _snprintf_s_chk(dest, 24, BOS_UNKNOWN, SUBFMT, SUBARG);
#endif
    failure = rc < 0;
    for (unsigned i = 0; i < 24; i++) if (dest[i] != 0) cleared = 0;
#elif SCEN == 4 || SCEN == 5
    wchar_t *a = (wchar_t *)vh_alloc(3 * sizeof(wchar_t)), *b = (wchar_t *)vh_alloc(3 * sizeof(wchar_t));
    a[0] = 'a'; a[1] = 'B'; a[2] = 0; /* concrete operands: only the allocation outcomes are symbolic (folding tables stay out of the formula) */
    b[0] = 'A'; b[1] = 'b'; b[2] = 0;
    int result = 0x77;
#if SCEN == 4
    rc = _wcsicmp_s_chk(a, 3, b, 3, &result, BOS_UNKNOWN, BOS_UNKNOWN);
#else
    rc = _wcsnatcmp_s_chk(a, 3, b, 3, 1, &result, BOS_UNKNOWN, BOS_UNKNOWN);
#endif
    failure = rc != EOK;
#elif SCEN == 7
    /* canonical reordering with more than 10 combining marks in a row: the mark array moves to the heap (malloc, then realloc).
       NDMAX 16: the result fits; NDMAX 12: the no-space exit is taken with the heap array in use */
    wchar_t *src = (wchar_t *)vh_alloc(16 * sizeof(wchar_t)), *dest = (wchar_t *)vh_alloc(NDMAX * sizeof(wchar_t));
    src[0] = L'a';
    for (unsigned i = 1; i <= NMARKS; i++) src[i] = 0x301;
    src[NMARKS + 1] = 0;
    for (unsigned i = 0; i < NDMAX; i++) dest[i] = 0x55;
    rc = _wcsnorm_reorder_s_chk(dest, NDMAX, src, NMARKS + 1, BOS_UNKNOWN);
    failure = rc != EOK;
    cleared = dest[0] == 0;
    /* marks of one class keep their order: the reordered string equals the source (C17) */
    if (!failure)
        for (unsigned i = 0; i < NMARKS + 2; i++) CHECK("C17", dest[i] == src[i], "canonical reordering changed a sequence of marks of one class (heap array)");
#elif SCEN == 8
    /* wcsnorm_s end to end on a string long enough for the heap scratch string (>= 126 characters) that also holds more than
       10 marks in a row (heap mark array in the reordering stage): three allocation sites live at once; concrete string,
       symbolic allocation outcomes */
    wchar_t *src = (wchar_t *)vh_alloc((NBASE + NMARKS + 1) * sizeof(wchar_t)), *dest = (wchar_t *)vh_alloc(NDMAX * sizeof(wchar_t));
    for (unsigned i = 0; i < NBASE; i++) src[i] = L'a';
    for (unsigned i = 0; i < NMARKS; i++) src[NBASE + i] = 0x301;
    src[NBASE + NMARKS] = 0;
    for (unsigned i = 0; i < NDMAX; i++) dest[i] = 0x55;
    rsize_t rlen = 0;
    rc = _wcsnorm_s_chk(dest, NDMAX, src, NMODE, &rlen, BOS_UNKNOWN);
    failure = rc != EOK;
    cleared = dest[0] == 0;
    if (!failure) {
        CHECK("C17", rlen == NBASE + NMARKS, "wcsnorm_s: reported length differs");
        for (unsigned i = 0; i < NBASE + NMARKS + 1; i++) CHECK("C17", dest[i] == src[i], "wcsnorm_s changed an already normalised string (heap scratch)");
    }
#else
    wchar_t *dest = (wchar_t *)vh_alloc(520 * sizeof(wchar_t));
    dest[0] = 0x55; dest[1] = 0x55;
    rc = WCALL;
    failure = rc < 0;
    cleared = dest[0] == 0;
#endif
    if (vh_failed_any) {
        CHECK("C20", failure, "an internal allocation failed but the call does not report a failure");
#if SCEN <= 3 || SCEN == 6 || SCEN == 7 || SCEN == 8
        CHECK("C20", cleared, "allocation failure: dest not cleared");
#endif
    }
    CHECK("C20", vh_live == 0, "memory leaked: a block allocated by the library is still live at return");
    REACH("end");
#ifdef WITNESS
    if (vh_failed_any) REACH("failed alloc");
    if (!failure) REACH("ok");
#endif
VH_MAIN_END
