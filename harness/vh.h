/* vh.h - common harness layer: the same harness source is
 *   (a) compiled by goto-cc and decided by CBMC (inputs are nondeterministic), and
 *   (b) compiled by gcc -fsanitize=address,undefined and run natively on the concrete
 *       inputs CBMC returned (replay), with every extent flush against PROT_NONE pages.
 *
 * A harness defines, before including this file:
 *   #define VH_INPUTS(S,A)  S(type,name) ...  A(type,name,N) ...
 * and gets `struct vh_in in;` filled by vh_get_inputs().
 */
#ifndef VH_H
#define VH_H
#include <stddef.h>
#include <stdint.h>
#include <stdlib.h>
#include <string.h>
#include <stdio.h>
#include <wchar.h>

#ifndef VH_CBMC
#define VH_CBMC 0 /* goto-cc builds pass -DVH_CBMC=1 */
#endif

#ifndef VH_RZ
#define VH_RZ 8
#endif

#define VH_S_DECL(t, n) t n;
#define VH_A_DECL(t, n, N) t n[N];
struct vh_in {
    VH_INPUTS(VH_S_DECL, VH_A_DECL)
    int vh_dummy_;
};
static struct vh_in in;

#if VH_CBMC
/* ------------------------------------------------------------------ CBMC side */
#define VH_S_ND(t, n)                                                          \
    {                                                                          \
        t vh_nd_;                                                              \
        in.n = vh_nd_;                                                         \
    }
#define VH_A_ND(t, n, N)                                                       \
    {                                                                          \
        t vh_nd_[N];                                                           \
        for (unsigned vh_i_ = 0; vh_i_ < (N); vh_i_++)                         \
            in.n[vh_i_] = vh_nd_[vh_i_];                                       \
    }
static void vh_get_inputs(void) { VH_INPUTS(VH_S_ND, VH_A_ND) }
#define ASSUME(c) __CPROVER_assume(c)
#define CHECK(id, c, msg) __CPROVER_assert((c), id ": " msg)
#ifdef WITNESS
#define REACH(tag) __CPROVER_assert(0, "WITNESS: " tag)
#else
#define REACH(tag) ((void)0)
#endif
static inline void *vh_alloc(size_t n) {
    void *p = malloc(n);
    __CPROVER_assume(p != 0);
    return p;
}
#define vh_done() ((void)0)

#else
/* ------------------------------------------------------------------ native side */
#include <signal.h>
#include <sys/mman.h>
#include <unistd.h>
#include <ucontext.h>
#include "vh_inputs.h" /* generated from the CBMC trace: VH_INPUT_INIT */
static int vh_failed;
static int vh_flush_front; /* run 2: objects start at a page start, PROT_NONE before */
static void vh_get_inputs(void) {
    static const struct vh_in init = {VH_INPUT_INIT};
    in = init;
}
#define ASSUME(c)                                                              \
    do {                                                                       \
        if (!(c)) {                                                            \
            printf("ASSUME-FALSE %s\n", #c);                                   \
            fflush(stdout);                                                    \
            _exit(3);                                                          \
        }                                                                      \
    } while (0)
#define CHECK(id, c, msg)                                                      \
    do {                                                                       \
        if (!(c)) {                                                            \
            printf("FAIL %s %s\n", id, msg);                                   \
            vh_failed = 1;                                                     \
        }                                                                      \
    } while (0)
#define REACH(tag) ((void)0)
static void vh_segv(int sig, siginfo_t *si, void *uc_) {
    ucontext_t *uc = (ucontext_t *)uc_;
    int wr = 0;
#if defined(__x86_64__)
    wr = (uc->uc_mcontext.gregs[REG_ERR] & 2) != 0;
#endif
    char b[128];
    int n = snprintf(b, sizeof b, "FAULT %s addr=%p sig=%d\n",
                     wr ? "write" : "read", si->si_addr, sig);
    if (write(1, b, n)) {
    }
    _exit(4);
}
static void vh_native_init(int argc, char **argv) {
    struct sigaction sa;
    memset(&sa, 0, sizeof sa);
    sa.sa_sigaction = vh_segv;
    sa.sa_flags = SA_SIGINFO;
    sigaction(SIGSEGV, &sa, 0);
    sigaction(SIGBUS, &sa, 0);
    vh_flush_front = (argc > 1 && argv[1][0] == 'f');
    setvbuf(stdout, 0, _IONBF, 0);
}
/* object of exactly n bytes with an inaccessible page directly behind (or before) it.
   Objects are carved from one reservation in increasing address order, so that allocation
   order == address order, as in CBMC's memory model. */
static void *vh_alloc(size_t n) {
    static char *pool, *cur;
    size_t pg = 4096;
    if (!pool) {
        pool = cur = mmap(0, 256u << 20, PROT_NONE, MAP_PRIVATE | MAP_ANONYMOUS | MAP_NORESERVE, -1, 0);
        if (pool == MAP_FAILED)
            abort();
    }
    size_t body = ((n + pg - 1) / pg) * pg;
    char *m = cur;
    cur += body + pg; /* one guard page between consecutive objects */
    if (cur > pool + (256u << 20))
        abort();
    if (body)
        mprotect(m + pg, body, PROT_READ | PROT_WRITE);
    if (n == 0)
        return m + pg; /* nothing accessible here */
    if (vh_flush_front)
        return m + pg;
    return m + pg + body - n;
}
#define vh_done()                                                              \
    do {                                                                       \
        printf(vh_failed ? "REPLAY-FAIL\n" : "REPLAY-OK\n");                   \
        return vh_failed ? 1 : 0;                                              \
    } while (0)
#endif

/* red-zoned object: n bytes with RZ bytes of symbolic canary on either side, one object */
struct vh_rz {
    unsigned char *base;
    size_t n;
    unsigned char pre[VH_RZ], post[VH_RZ];
};
static inline void *vh_alloc_rz(struct vh_rz *r, size_t n, const unsigned char *canary /* 2*VH_RZ */) {
    r->n = n;
    r->base = (unsigned char *)vh_alloc(n + 2 * VH_RZ);
    for (unsigned i = 0; i < VH_RZ; i++) {
        r->base[i] = r->pre[i] = canary[i];
        r->base[VH_RZ + n + i] = r->post[i] = canary[VH_RZ + i];
    }
    return r->base + VH_RZ;
}
static inline int vh_rz_intact(const struct vh_rz *r) {
    for (unsigned i = 0; i < VH_RZ; i++) {
        if (r->base[i] != r->pre[i])
            return 0;
        if (r->base[VH_RZ + r->n + i] != r->post[i])
            return 0;
    }
    return 1;
}

/* counting constraint handler (C05) */
static int vh_h_count;
static int vh_h_code;
static void vh_handler(const char *msg, void *ptr, int error) {
    (void)msg;
    (void)ptr;
    vh_h_count++;
    vh_h_code = error;
}

#if VH_CBMC
#define VH_MAIN_BEGIN                                                          \
    int main(void) {                                                           \
        vh_get_inputs();
#else
#define VH_MAIN_BEGIN                                                          \
    int main(int argc, char **argv) {                                          \
        vh_native_init(argc, argv);                                            \
        vh_get_inputs();
#endif
#define VH_MAIN_END                                                            \
    vh_done();                                                                 \
    return 0;                                                                  \
    }

#endif
