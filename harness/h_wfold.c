/* h_wfold.c - wcsfc_s on whole strings: src = 2 characters (symbolic choice from an alphabet with 1-, 2- and 3-character
 * folds, a Greek iota-subscript letter that is decomposed further, sigma, dotted I) + terminator in an exact object;
 * dest = exact object of DOBJ wide characters, dmax = DOBJ (concrete per job) or a rejected size.
 * C01 through the pointer checks (natively guard pages); C03 C04 C05 C08 as assertions. */
#include "safeclib_private.h"
#include "safe_lib.h"
#ifndef DOBJ
#define DOBJ 4
#endif
#define SN 3
#define VH_INPUTS(S, A) S(size_t, dmax) S(unsigned char, dnull) S(unsigned char, snull) S(unsigned char, bos_known) S(unsigned char, len_null) \
    A(unsigned char, s, SN) A(wchar_t, d, DOBJ + 1)
#include "vh.h"
static const wchar_t ALPHA[8] = {L'a', L'A', 0xDF, 0xFB03, 0x1F80, 0x130, 0x3A3, 0x1E9E};

VH_MAIN_BEGIN
    size_t dmax = in.dmax;
#ifdef FIX_DMAX
    dmax = in.dmax = FIX_DMAX;
#endif
    const int dnull = in.dnull & 1, snull = in.snull & 1, bos_known = in.bos_known & 1;
    wchar_t *src = (wchar_t *)vh_alloc(SN * sizeof(wchar_t));
    wchar_t *dobj = (wchar_t *)vh_alloc(DOBJ * sizeof(wchar_t));
    unsigned sl = SN - 1;
    for (unsigned i = 0; i < SN; i++) {
#if defined(S0) && defined(S1) /* slice: concrete source string (symbolic indices into the fold tables do not scale) */
        in.s[i] = i == 0 ? S0 : i == 1 ? S1 : 8;
#endif
        src[i] = (i == SN - 1 || (in.s[i] & 8)) ? 0 : ALPHA[in.s[i] & 7];
        if (src[i] == 0 && sl == SN - 1) sl = i;
    }
    for (unsigned i = 0; i < SN; i++) if (i > sl) src[i] = 0;
    wchar_t s0[SN];
    for (unsigned i = 0; i < SN; i++) s0[i] = src[i];
    for (unsigned i = 0; i < DOBJ; i++) dobj[i] = in.d[i];
    wchar_t *dest = dnull ? (wchar_t *)0 : dobj;
    size_t destbos = bos_known ? DOBJ * sizeof(wchar_t) : BOS_UNKNOWN;
    ASSUME(dnull || dmax <= DOBJ || (dmax > RSIZE_MAX_WSTR && !bos_known) || bos_known);
    rsize_t len = 0x7777;
    set_str_constraint_handler_s(vh_handler);
    errno_t rc = _wcsfc_s_chk(dest, dmax, snull ? (const wchar_t *)0 : src, (in.len_null & 1) ? (rsize_t *)0 : &len, destbos);
    const int usable = !dnull && dmax > 0 && dmax <= RSIZE_MAX_WSTR && dmax <= DOBJ;
    int viol = dnull || dmax == 0 || dmax > RSIZE_MAX_WSTR || (bos_known && dmax > DOBJ) || snull;
    if (viol) {
        CHECK("C05", rc != EOK, "constraint violated but success returned");
        CHECK("C05", vh_h_count == 1, "handler not invoked exactly once for a violation");
        CHECK("C05", vh_h_code == rc, "handler code differs from returned code");
    } else if (rc == EOK) {
        CHECK("C05", vh_h_count == 0, "handler invoked although the call succeeded");
    } else {
        CHECK("C05", vh_h_count == 1 && vh_h_code == rc, "failure not reported exactly once with the returned code");
    }
    if (usable) {
        int z = -1;
        for (unsigned i = 0; i < DOBJ; i++) if (i < dmax && dest[i] == 0 && z < 0) z = (int)i;
        CHECK("C03", z >= 0, "dest left without terminator within dmax");
        if (rc != EOK) {
            CHECK("C04", dest[0] == 0, "failed call: dest[0] != 0");
#ifndef NOSLACK
            for (unsigned i = 0; i < DOBJ; i++) if (i < dmax) CHECK("C04", dest[i] == 0, "failed call: dest not fully cleared");
#endif
        } else {
#ifndef NOSLACK
            for (unsigned i = 0; i < DOBJ; i++) if (i < dmax && z >= 0 && i > (unsigned)z) CHECK("C08", dest[i] == 0, "stale data behind the terminator");
#endif
            if (!(in.len_null & 1)) CHECK("C06", z >= 0 && len == (rsize_t)z, "*lenp is not the length of the folded string");
            /* a fold is never shorter than its source, and the ASCII letters fold to lower case */
            CHECK("C17", z >= (int)sl, "folded string shorter than the source");
            if (sl >= 1 && (s0[0] == L'a' || s0[0] == L'A')) CHECK("C17", dest[0] == L'a', "ASCII letter not folded to lower case");
        }
    }
    for (unsigned i = 0; i < SN; i++) CHECK("C04", src[i] == s0[i], "src modified");
    REACH("end");
#ifdef WITNESS
    if (rc == EOK) REACH("eok");
    if (rc != EOK) REACH("fail");
#endif
VH_MAIN_END
