/* h_printf_body.h - common body of the generated printf harnesses (families/printf.py writes the per-skeleton part:
 * FMT, VH_INPUTS, setup_args(), call_fn(), reference(), HAS_PCT_N, sentinels).  Included after those definitions. */
#if !VH_CBMC
#include <locale.h>
#endif
#ifndef DCAP
#define DCAP 32
#endif

/* capture sink for printf_s / fprintf_s (models of putchar / fputc append here) */
char vh_cap[DCAP + 8];
unsigned vh_cap_n;

VH_MAIN_BEGIN
#if !VH_CBMC
    setlocale(LC_ALL, "C.UTF-8"); /* the locale the models of wctomb/wcstombs stand for */
#endif
    size_t dmax = in.dmax;
#ifdef FIX_DMAX
    dmax = in.dmax = FIX_DMAX;
#endif
    ASSUME(dmax <= DCAP);
    const int dnull = 0;
    /* dest: fixed object [VH_RZ | DCAP | VH_RZ] prefilled with symbolic garbage, or exact object (EXACT) */
#ifdef EXACT
    char *dbase = (char *)vh_alloc(dmax);
    char *dest = dbase;
    for (unsigned i = 0; i < DCAP; i++)
        if (i < dmax) dest[i] = (char)in.dpre[i];
#else
    char *dbase = (char *)vh_alloc(DCAP + 2 * VH_RZ);
    for (unsigned i = 0; i < DCAP + 2 * VH_RZ; i++)
        dbase[i] = (char)in.dfull[i];
    char *dest = dbase + VH_RZ;
#define DPRE(i) ((char)in.dfull[VH_RZ + (i)])
#endif
    size_t destbos = in.bos_known ? (size_t)DCAP : BOS_UNKNOWN;
#ifdef EXACT
    destbos = in.bos_known ? dmax : BOS_UNKNOWN;
#endif
    setup_args();
#ifdef VH_EXCLUDE
    ASSUME(!(VH_EXCLUDE));
#endif
    set_str_constraint_handler_s(vh_handler);
    vh_cap_n = 0;
    int rc = call_fn(dest, dmax, destbos);

    /* reference text */
    static char ref[RP_CAP + 4];
    unsigned rn = 0;
    rf_cnt = 0;
    int arg_viol = reference(ref, &rn); /* 1: a documented argument violation (NULL %s argument, %n, ...) */
    const int usable = dmax > 0 && dmax <= RSIZE_MAX_STR;
    const int fits = rn < dmax && rn <= RP_CAP;
    (void)fits; (void)usable; (void)dnull; (void)arg_viol;

#if defined(PROP_C11) && defined(FLOAT_SKEL) && !defined(TO_STREAM)
    /* floating conversions: requested layout, value within one unit of the last printed digit, count returned, or failure
       only when the longest admissible rendering does not fit */
    if (usable) {
        if (rc >= 0) {
            CHECK("C11", (size_t)rc < dmax, "float: returned count does not fit in dmax");
            if ((size_t)rc < dmax) {
                CHECK("C11", dest[rc] == 0, "float: result not terminated after the last character");
                CHECK("C11", float_ok(dest, (unsigned)rc), "float: wrong layout, or printed value not within one unit of the last digit");
            }
        } else
            CHECK("C11", float_maxlen() >= dmax, "float: text fits in dmax but a failure is returned");
    }
#elif defined(PROP_C11) && defined(FLOAT_SKEL)
    CHECK("C11", rc >= 0 && (unsigned)rc == vh_cap_n, "float, stream variant: return value differs from the characters emitted");
    if (rc >= 0 && vh_cap_n <= DCAP) CHECK("C11", float_ok(vh_cap, vh_cap_n), "float, stream variant: wrong layout or value");
#elif defined(PROP_C11) && !defined(TO_STREAM)
    if (usable && !arg_viol && rn <= RP_CAP) {
        if (fits) {
            CHECK("C11", rc == (int)rn, "return value is not the number of characters C's snprintf produces");
            for (unsigned i = 0; i < RP_CAP; i++)
                if (i < rn && i < dmax && ref[i] != RP_DIGIT) CHECK("C11", dest[i] == ref[i], "stored characters differ from C's snprintf");
            for (unsigned f = 0; f < RP_MAXF; f++)
                if (f < rf_cnt) CHECK("C11", ref_digits_ok(dest, f), "digits do not decode to the argument value (or leading zero / wrong case)");
            if (rn < dmax) CHECK("C11", dest[rn] == 0, "result not terminated after the last character");
        } else
            CHECK("C11", rc < 0, "text does not fit in dmax but no negative code returned");
    }
    if (arg_viol && usable) CHECK("C11", rc < 0, "invalid argument/format accepted");
#endif
#if defined(PROP_C11) && defined(TO_STREAM) && !defined(FLOAT_SKEL)
    if (!arg_viol && rn <= DCAP) {
        CHECK("C11", rc == (int)rn, "stream variant: return value differs from the character count of C's printf");
        CHECK("C11", vh_cap_n == rn, "stream variant: number of characters emitted differs");
        for (unsigned i = 0; i < DCAP; i++)
            if (i < rn && ref[i] != RP_DIGIT) CHECK("C11", vh_cap[i] == ref[i], "stream variant: emitted characters differ from C's printf");
        for (unsigned f = 0; f < RP_MAXF; f++)
            if (f < rf_cnt) CHECK("C11", ref_digits_ok(vh_cap, f), "stream variant: digits do not decode to the argument value");
    }
#endif

#if defined(PROP_C09)
#ifdef HAS_PCT_N
    CHECK("C09", sentinels_intact(), "a %n directive stored through its argument");
    CHECK("C09", rc < 0, "format containing a %n directive was not rejected");
    CHECK("C09", vh_h_count >= 1, "format containing %n: constraint handler not invoked");
#else
    CHECK("C09", sentinels_intact(), "the engine stored through an argument");
#endif
#endif

#if defined(PROP_C03) && !defined(TO_STREAM)
    if (usable) {
        int z = 0;
        for (unsigned i = 0; i < DCAP; i++)
            if (i < dmax && dest[i] == 0) z = 1;
        CHECK("C03", z, "dest left without terminator within dmax");
    }
#endif
#if defined(PROP_C04) && !defined(TO_STREAM)
    if (usable && rc < 0) {
        CHECK("C04", dest[0] == 0, "failed call: dest[0] != 0");
#ifndef NOSLACK
        for (unsigned i = 0; i < DCAP; i++)
            if (i < dmax) CHECK("C04", dest[i] == 0, "failed call: dest not fully cleared (partial output visible)");
#endif
    }
#endif
#if defined(PROP_C05) && !defined(TO_STREAM)
    {
        int viol = dmax == 0 || dmax > RSIZE_MAX_STR || arg_viol || (rn <= RP_CAP && !fits) || rn > RP_CAP;
        if (viol) {
            CHECK("C05", rc < 0, "constraint violated but no failure indication");
            CHECK("C05", vh_h_count == 1, "handler not invoked exactly once for a violation");
#ifndef KF_PRINTF_CODES
            CHECK("C05", vh_h_code == -rc, "handler code differs from the (negated) return value");
#endif
        } else {
            CHECK("C05", rc >= 0, "no constraint violated but failure returned");
            CHECK("C05", vh_h_count == 0, "handler invoked without violation");
        }
    }
#endif
#if defined(PROP_C08) && !defined(TO_STREAM) && !defined(NOSLACK)
    if (usable && rc >= 0)
        for (unsigned i = 0; i < DCAP; i++)
            if (i >= (unsigned)rc && i < dmax) CHECK("C08", dest[i] == 0, "stale data behind the terminator");
#endif
#if defined(PROP_C01) && !defined(EXACT) && !defined(TO_STREAM)
    for (unsigned i = 0; i < DCAP + 2 * VH_RZ; i++)
        if (!(i >= VH_RZ && i < VH_RZ + dmax)) CHECK("C01", dbase[i] == (char)in.dfull[i], "write outside dest[0..dmax)");
    CHECK("C01", args_intact(), "an argument object was modified");
#endif
#if defined(PROP_C12)
    /* the text never depends on earlier calls: second call with the same arguments gives the same result */
    {
        static char d2[DCAP + 2];
        for (unsigned i = 0; i < DCAP; i++) d2[i] = 0x55;
        vh_cap_n = 0;
        int rc2 = call_fn(d2, dmax, BOS_UNKNOWN);
        CHECK("C12", rc2 == rc, "second identical call returns a different value");
#ifndef TO_STREAM
        if (rc >= 0)
            for (unsigned i = 0; i < DCAP; i++)
                if (i < dmax && i <= (unsigned)rc) CHECK("C12", d2[i] == dest[i], "second identical call produces different text");
#endif
    }
#endif
#if defined(PROP_C20)
    /* allocation failure (solver-chosen): failure indication, dest cleared, nothing leaked (leak check by CBMC) */
    if (vh_alloc_failed) {
        CHECK("C20", rc < 0, "an internal allocation failed but the call reports success");
        if (usable) {
            CHECK("C20", dest[0] == 0, "allocation failure: dest not cleared");
        }
    }
#endif
    REACH("end");
#ifdef WITNESS
    if (rc >= 0) REACH("ok");
    if (rc < 0) REACH("fail");
#endif
VH_MAIN_END
