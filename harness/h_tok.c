/* h_tok.c - C14: strtok_s / wcstok_s call histories against a reference tokenizer.
 * The string object has NOBJ = NMAX + 1 elements; dmax <= NMAX is symbolic; characters come from a 5-symbol alphabet
 * {NUL, 'a', 'b', ',', 0xA7} (symbolic choice per position), the delimiter set (<= DL characters from the same alphabet,
 * without NUL) is chosen anew for every call; K calls (first with the string, then with NULL). */
#include "safeclib_private.h"
#ifndef NMAX
#define NMAX 3
#endif
#ifndef K
#define K 3
#endif
#ifndef DL
#define DL 2
#endif
#define NOBJ (NMAX + 1)
#define VH_INPUTS(S, A) S(size_t, dmax) A(unsigned char, s, NOBJ) A(unsigned char, d, K * (DL + 1)) A(unsigned char, dlen, K) S(unsigned char, bos_known)
#include "vh.h"
static const T ALPHA[5] = {0, 'a', 'b', ',', (T)0xA7}; /* incl. a high-bit character */

static int is_delim(T c, const T *delim) {
    for (unsigned i = 0; i <= DL; i++) {
        if (delim[i] == 0) return 0;
        if (delim[i] == c) return 1;
    }
    return 0;
}

VH_MAIN_BEGIN
    size_t dmax = in.dmax;
#ifdef FIX_DMAX
    dmax = in.dmax = FIX_DMAX;
#endif
    ASSUME(dmax >= 1 && dmax <= NMAX);
    T *s = (T *)vh_alloc(NOBJ * sizeof(T));
    T s0[NOBJ], cur[NOBJ];
    for (unsigned i = 0; i < NOBJ; i++)
        s[i] = s0[i] = cur[i] = ALPHA[in.s[i] % 5];
    /* terminated within dmax?  (KF_TOK_READS_DMAX: the library also accepts the terminator at s[dmax], see known findings) */
    unsigned slen = NOBJ + 1;
    for (unsigned i = 0; i < NOBJ; i++)
#ifdef KF_TOK_READS_DMAX
        if (i <= dmax && s0[i] == 0 && slen > NOBJ) slen = i;
#else
        if (i < dmax && s0[i] == 0 && slen > NOBJ) slen = i;
#endif
    const int terminated = slen <= NOBJ;
    T delim[K][DL + 1];
    for (unsigned k = 0; k < K; k++) {
        unsigned n = in.dlen[k] % (DL + 1);
        for (unsigned i = 0; i <= DL; i++)
            delim[k][i] = (i < n) ? ALPHA[1 + in.d[k * (DL + 1) + i] % 4] : 0;
    }
    set_str_constraint_handler_s(vh_handler);

    rsize_t rem = dmax;
    T *ptr = 0;
    unsigned pos = 0;      /* model: where the next scan starts */
    int exhausted = 0;     /* model: no token left */
    int failed = 0;
    for (unsigned k = 0; k < K; k++) {
        T *tok = TOK(k == 0 ? s : (T *)0, &rem, delim[k], &ptr, (k == 0 && in.bos_known) ? NOBJ * sizeof(T) : BOS_UNKNOWN);
        if (!terminated) {
            /* unterminated string: the sequence ends with an error; nothing at or beyond s[dmax] is written */
            for (unsigned i = 0; i < NOBJ; i++)
                if (i >= dmax) CHECK("C14", s[i] == s0[i], "unterminated string: element at or beyond dmax written");
            if (tok == 0) failed = 1;
            if (tok) CHECK("C14", tok >= s && tok < s + dmax, "unterminated string: token outside the buffer");
            continue;
        }
        if (exhausted) {
            CHECK("C14", tok == 0, "token returned after the tokens were exhausted (each token exactly once, then NULL forever)");
            continue;
        }
        /* reference: skip delimiters */
        unsigned b = pos, stop = 0;
        for (unsigned i = 0; i < NOBJ; i++) /* constant trip count: skip delimiters from pos */
            if (!stop && i >= pos) {
                if (i < slen && is_delim(cur[i], delim[k])) b = i + 1; else stop = 1;
            }
        if (b >= slen) {
            exhausted = 1;
            CHECK("C14", tok == 0, "NULL expected: only delimiters are left");
        } else {
            unsigned e = b;
            stop = 0;
            for (unsigned i = 0; i < NOBJ; i++)
                if (!stop && i >= b) {
                    if (i < slen && !is_delim(cur[i], delim[k])) e = i + 1; else stop = 1;
                }
            CHECK("C14", tok == s + b, "returned pointer is not the start of the next token");
            if (e < slen) { cur[e] = 0; pos = e + 1; } else { pos = slen; }
            if (tok == s + b) {
                /* token is NUL-terminated inside the buffer at the expected end */
                CHECK("C14", s[e] == 0, "token is not terminated at its end");
            }
        }
        for (unsigned i = 0; i < NOBJ; i++)
            CHECK("C14", s[i] == cur[i], "buffer differs from: original with exactly the token-ending delimiters nulled");
        if (tok || !exhausted) {
            /* the continuation never permits access past the original dmax */
            if (ptr) CHECK("C14", ptr >= s && (size_t)(ptr - s) + rem <= dmax + 0, "*ptr + *dmaxp reaches past the original dmax");
        }
    }
    (void)failed;
    REACH("end");
VH_MAIN_END
