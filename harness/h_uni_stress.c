/* h_uni_stress.c - C17(c): wcsnorm_s on concrete stress strings (long runs of combining marks that spill the 10-entry
 * scratch arrays to the heap, Hangul, composition exclusions); dest prefill and slack are symbolic.  The expected NFD / NFC
 * come from unicodedata on this run; normalising the result again must give the same. */
#include "extwchar/wcsnorm_s.c"
#include "ref_stress.h"
#define DCAP 40
#define VH_INPUTS(S, A) A(unsigned, pre, DCAP)
#include "vh.h"
VH_MAIN_BEGIN
    const wchar_t *src = st_src[SIDX];
    const wchar_t *want = MODE == 0 ? st_nfd[SIDX] : st_nfc[SIDX];
    wchar_t *dest = (wchar_t *)vh_alloc(DCAP * sizeof(wchar_t)), *d2 = (wchar_t *)vh_alloc(DCAP * sizeof(wchar_t));
    for (unsigned i = 0; i < DCAP; i++) { dest[i] = (wchar_t)(0x5a00 + i); d2[i] = 0x5a5a; /* concrete prefill: the whole run is then a concrete execution that symex folds */ }
    set_str_constraint_handler_s(vh_handler);
    rsize_t len = 0x7777, len2 = 0x7777;
    errno_t rc = _wcsnorm_s_chk(dest, DCAP, src, MODE == 0 ? WCSNORM_NFD : WCSNORM_NFC, &len, BOS_UNKNOWN);
    CHECK("C17", rc == EOK, "normalisation of a valid string failed");
    unsigned wl = 0;
    for (unsigned i = 0; i < DCAP; i++) if (want[i] == 0 && wl == 0 && i > 0) wl = i;
    for (unsigned i = 0; i < DCAP; i++) if (i <= wl) CHECK("C17", dest[i] == want[i], "result differs from the UAX #15 normalisation form");
    CHECK("C17", len == wl, "reported length differs");
    errno_t rc2 = _wcsnorm_s_chk(d2, DCAP, dest, MODE == 0 ? WCSNORM_NFD : WCSNORM_NFC, &len2, BOS_UNKNOWN);
    CHECK("C17", rc2 == EOK && len2 == len, "normalising twice differs from once (length)");
    for (unsigned i = 0; i < DCAP; i++) if (i <= wl) CHECK("C17", d2[i] == dest[i], "normalising twice differs from once");
    REACH("end");
VH_MAIN_END
