/* h_handlers.c - C13: constraint-handler registration = per-thread override of a global.
 * The two real translation units are #included so that the four state variables are in scope.
 *  MODE_STEP : one operation from an arbitrary state of the four variables, compared with a reference model
 *              (inductive: the model state is exactly the four variables, so one step covers histories of any length)
 *  MODE_HIST : a history of K operations on the main thread with a second thread created at a symbolic point
 *              (CBMC threads give each thread its own _Thread_local instance), ghost model per thread.
 */
#include "str/safe_str_constraint.c"
#include "mem/safe_mem_constraint.c"

#ifndef K
#define K 3
#endif
#define VH_INPUTS(S, A)                                                        \
    S(unsigned char, g_str) S(unsigned char, t_str) S(unsigned char, g_mem) S(unsigned char, t_mem) \
    A(unsigned char, op, K) A(unsigned char, arg, K) A(unsigned char, tid, K)
#include "vh.h"

/* observable handlers */
static int ran_id, ran_code, ran_count;
static void H1(const char *m, void *p, errno_t e) { (void)m; (void)p; ran_id = 1; ran_code = e; ran_count++; }
static void H2(const char *m, void *p, errno_t e) { (void)m; (void)p; ran_id = 2; ran_code = e; ran_count++; }
static void H3(const char *m, void *p, errno_t e) { (void)m; (void)p; ran_id = 3; ran_code = e; ran_count++; }

/* handler values: 0 = NULL (never registered / argument NULL), 1 = the default handler, 2..4 = H1..H3 */
static constraint_handler_t hv(unsigned v) {
    switch (v % 5) {
    case 0: return 0;
    case 1: return sl_default_handler;
    case 2: return H1;
    case 3: return H2;
    default: return H3;
    }
}
/* reference model */
static unsigned m_dispatch(unsigned tl, unsigned gl) { /* which handler value runs */
    if (tl != 0) return tl;
    if (gl != 0) return gl;
    return 1;
}
#ifndef MODE_HIST
static void violate_str(void) { char d[1]; _strcpy_s_chk(d, 0, "x", BOS_UNKNOWN); }  /* dmax == 0: ESZEROL */
static void violate_mem(void) { char d[1]; _memcpy_s_chk(0, 1, d, 1, BOS_UNKNOWN, BOS_UNKNOWN); } /* ESNULLP */
#endif

/* model state: MG[kind] process-wide, MT[thread][kind] thread-local; kind 0 = str, 1 = mem */
static unsigned MG[2], MT[2][2];
#define M_NEW(arg) (((arg) % 5 == 0) ? 1u : (unsigned)((arg) % 5)) /* NULL selects the default */
static unsigned m_set_g(unsigned kind, unsigned arg) {
    unsigned prev = MG[kind];
    MG[kind] = M_NEW(arg);
    return prev;
}
static unsigned m_set_t(unsigned tid, unsigned kind, unsigned arg) {
    unsigned prev = MT[tid][kind];
    MT[tid][kind] = M_NEW(arg);
    return prev;
}
#ifdef MODE_HIST
#define VIOLATE_STR() invoke_safe_str_constraint_handler("strcpy_s: dmax is 0", 0, ESZEROL)
#define VIOLATE_MEM() invoke_safe_mem_constraint_handler("memcpy_s: dest is null", 0, ESNULLP)
#else
#define VIOLATE_STR() violate_str()
#define VIOLATE_MEM() violate_mem()
#endif
/* one operation on thread tid */
static void do_op(unsigned tid, unsigned op, unsigned arg) {
    unsigned prev;
    constraint_handler_t r;
    switch (op % 6) {
    case 0:
        r = set_str_constraint_handler_s(hv(arg));
        prev = m_set_g(0, arg);
        CHECK("C13", r == hv(prev), "set_str_constraint_handler_s: returned handler is not the previous global str handler");
        break;
    case 1:
        r = thrd_set_str_constraint_handler_s(hv(arg));
        prev = m_set_t(tid, 0, arg);
        CHECK("C13", r == hv(prev), "thrd_set_str_constraint_handler_s: returned handler is not this thread's previous str handler");
        break;
    case 2:
        r = set_mem_constraint_handler_s(hv(arg));
        prev = m_set_g(1, arg);
        CHECK("C13", r == hv(prev), "set_mem_constraint_handler_s: returned handler is not the previous global mem handler");
        break;
    case 3:
        r = thrd_set_mem_constraint_handler_s(hv(arg));
        prev = m_set_t(tid, 1, arg);
        CHECK("C13", r == hv(prev), "thrd_set_mem_constraint_handler_s: returned handler is not this thread's previous mem handler");
        break;
    case 4: {
        unsigned want = m_dispatch(MT[tid][0], MG[0]);
        ran_id = 0; ran_count = 0; ran_code = 0;
        VIOLATE_STR();
        if (want >= 2) {
            CHECK("C13", ran_count == 1 && ran_id == (int)want - 1, "str violation: wrong handler invoked (thread-local, else global, else default)");
            CHECK("C13", ran_code == ESZEROL, "str violation: wrong code passed");
        } else
            CHECK("C13", ran_count == 0, "str violation: a registered handler ran although the default is selected");
        break;
    }
    default: {
        unsigned want = m_dispatch(MT[tid][1], MG[1]);
        ran_id = 0; ran_count = 0; ran_code = 0;
        VIOLATE_MEM();
        if (want >= 2) {
            CHECK("C13", ran_count == 1 && ran_id == (int)want - 1, "mem violation: wrong handler invoked (thread-local, else global, else default)");
            CHECK("C13", ran_code == ESNULLP, "mem violation: wrong code passed");
        } else
            CHECK("C13", ran_count == 0, "mem violation: a registered handler ran although the default is selected");
        break;
    }
    }
}

#ifdef MODE_STEP
VH_MAIN_BEGIN
    MG[0] = in.g_str % 5; MT[0][0] = in.t_str % 5; MG[1] = in.g_mem % 5; MT[0][1] = in.t_mem % 5;
    /* arbitrary state of the four real variables */
    str_handler = hv(MG[0]);
    thrd_str_handler = hv(MT[0][0]);
    mem_handler = hv(MG[1]);
    thrd_mem_handler = hv(MT[0][1]);
    unsigned s0 = MG[0], s1 = MT[0][0], s2 = MG[1], s3 = MT[0][1];
    do_op(0, in.op[0], in.arg[0]);
    /* the real variables follow the model (this is the inductive invariant) */
    CHECK("C13", str_handler == hv(MG[0]) && thrd_str_handler == hv(MT[0][0]), "str registration state differs from the model after the step");
    CHECK("C13", mem_handler == hv(MG[1]) && thrd_mem_handler == hv(MT[0][1]), "mem registration state differs from the model after the step");
    /* independence of the kinds: a str operation leaves mem untouched and vice versa */
    if (in.op[0] % 6 == 0 || in.op[0] % 6 == 1 || in.op[0] % 6 == 4)
        CHECK("C13", mem_handler == hv(s2) && thrd_mem_handler == hv(s3), "str operation changed the mem registration");
    if (in.op[0] % 6 == 2 || in.op[0] % 6 == 3 || in.op[0] % 6 == 5)
        CHECK("C13", str_handler == hv(s0) && thrd_str_handler == hv(s1), "mem operation changed the str registration");
    REACH("end");
VH_MAIN_END
#endif

#ifdef MODE_HIST
/* Histories over two threads.  CBMC refuses shared function-pointer variables in multi-threaded programs
 * ("pointer handling for concurrency is unsound"), so the thread dimension is encoded explicitly: the history is
 * a sequence of K operations, each executed "as" thread 0 or 1, and switching the executing thread saves/restores
 * exactly those of the four state variables that the compiled library TU declares thread-local (TLS_STR / TLS_MEM are
 * read from the goto binary's symbol table by the driver on every run).  What _Thread_local means is thereby trusted;
 * which variable each real function reads and writes is what is checked.  Operations are atomic single accesses of one
 * variable, so operation-granular interleavings are all schedules there are to observe.
 * Thread 1 is created at a symbolic step; whether it inherits the creator's thread-local registration is left open by
 * the property, so its first two operations register its own thread-local handlers (which determines its state).
 * Natively (replay) thread 1 is a real pthread executing its operations on demand. */
#ifndef TLS_STR
#define TLS_STR 1
#endif
#ifndef TLS_MEM
#define TLS_MEM 1
#endif
#if VH_CBMC
static constraint_handler_t ctx_str[2], ctx_mem[2];
static unsigned cur_tid;
static void run_as(unsigned tid) {
    if (tid == cur_tid) return;
#if TLS_STR
    ctx_str[cur_tid] = thrd_str_handler;
    thrd_str_handler = ctx_str[tid];
#endif
#if TLS_MEM
    ctx_mem[cur_tid] = thrd_mem_handler;
    thrd_mem_handler = ctx_mem[tid];
#endif
    cur_tid = tid;
}
static void exec_op(unsigned tid, unsigned op, unsigned arg, int first) {
    run_as(tid);
    if (first) { /* determining registration of a fresh thread: returned value not judged (inheritance left open) */
        if (op % 2) { (void)thrd_set_str_constraint_handler_s(hv(arg)); (void)m_set_t(tid, 0, arg); }
        else { (void)thrd_set_mem_constraint_handler_s(hv(arg)); (void)m_set_t(tid, 1, arg); }
    } else
        do_op(tid, op, arg);
}
#else
#include <pthread.h>
static pthread_mutex_t mu = PTHREAD_MUTEX_INITIALIZER;
static pthread_cond_t cv = PTHREAD_COND_INITIALIZER;
static int req, done, quit; static unsigned r_op, r_arg, r_first;
static void one(unsigned tid, unsigned op, unsigned arg, int first) {
    if (first) {
        if (op % 2) { (void)thrd_set_str_constraint_handler_s(hv(arg)); (void)m_set_t(tid, 0, arg); }
        else { (void)thrd_set_mem_constraint_handler_s(hv(arg)); (void)m_set_t(tid, 1, arg); }
    } else
        do_op(tid, op, arg);
}
static void *worker(void *a) {
    (void)a;
    pthread_mutex_lock(&mu);
    for (;;) {
        while (!req && !quit) pthread_cond_wait(&cv, &mu);
        if (quit) break;
        one(1, r_op, r_arg, r_first);
        req = 0; done = 1;
        pthread_cond_broadcast(&cv);
    }
    pthread_mutex_unlock(&mu);
    return 0;
}
static pthread_t wt; static int started;
static void exec_op(unsigned tid, unsigned op, unsigned arg, int first) {
    if (tid == 0) { one(0, op, arg, first); return; }
    if (!started) { pthread_create(&wt, 0, worker, 0); started = 1; }
    pthread_mutex_lock(&mu);
    r_op = op; r_arg = arg; r_first = first; req = 1; done = 0;
    pthread_cond_broadcast(&cv);
    while (!done) pthread_cond_wait(&cv, &mu);
    pthread_mutex_unlock(&mu);
}
#endif
VH_MAIN_BEGIN
    unsigned created = 0, nb = 0;
    for (unsigned i = 0; i < K; i++) {
        unsigned tid = in.tid[i] & 1;
        if (tid == 1 && !created) created = 1;
        if (tid == 1) {
            /* the first two operations of thread 1 are its determining thread-local registrations (str, then mem) */
            if (nb == 0) exec_op(1, 1, in.arg[i], 1);
            else if (nb == 1) exec_op(1, 0, in.arg[i], 1);
            else exec_op(1, in.op[i], in.arg[i], 0);
            nb++;
        } else
            exec_op(0, in.op[i], in.arg[i], 0);
    }
#if !VH_CBMC
    if (started) { pthread_mutex_lock(&mu); quit = 1; pthread_cond_broadcast(&cv); pthread_mutex_unlock(&mu); pthread_join(wt, 0); }
#endif
    REACH("end");
VH_MAIN_END
#endif
