/* h_uni_decomp.c - C17(a,b): the table walkers of wcsnorm_s.c for a symbolic code point inside [CP_LO, CP_HI]:
 * every index in bounds (pointer checks) and, for code points assigned in the oracle's UCD version, the canonical
 * decomposition and the combining class equal the oracle (ref_ucd.h, generated from unicodedata on this run). */
#include "extwchar/wcsnorm_s.c"
#include "ref_ucd.h"
#define VH_INPUTS(S, A) S(unsigned, cp)
#include "vh.h"
static int ref_lookup(const unsigned tbl[][6], unsigned n, unsigned cp) {
    unsigned lo = 0, hi = n;
    for (unsigned i = 0; i < 14; i++) {
        if (lo >= hi) break;
        unsigned mid = lo + (hi - lo) / 2;
        if (tbl[mid][0] == cp) return (int)mid;
        if (tbl[mid][0] < cp) lo = mid + 1; else hi = mid;
    }
    return -1;
}
static int ref_ccc_lookup(unsigned cp) {
    unsigned lo = 0, hi = REF_NCCC;
    for (unsigned i = 0; i < 14; i++) {
        if (lo >= hi) break;
        unsigned mid = lo + (hi - lo) / 2;
        if (ref_ccc[mid][0] == cp) return (int)ref_ccc[mid][1];
        if (ref_ccc[mid][0] < cp) lo = mid + 1; else hi = mid;
    }
    return 0;
}
static int unassigned(unsigned cp) {
    unsigned lo = 0, hi = REF_NUNAS;
    for (unsigned i = 0; i < 14; i++) {
        if (lo >= hi) break;
        unsigned mid = lo + (hi - lo) / 2;
        if (ref_unas[mid][0] <= cp && cp <= ref_unas[mid][1]) return 1;
        if (ref_unas[mid][1] < cp) lo = mid + 1; else hi = mid;
    }
    return 0;
}
VH_MAIN_BEGIN
    uint32_t cp = in.cp;
    ASSUME(cp >= CP_LO && cp <= CP_HI);
    ASSUME(!(cp >= 0xD800 && cp <= 0xDFFF));
#ifdef VH_EXCLUDE
    ASSUME(!(VH_EXCLUDE));
#endif
    wchar_t *dest = (wchar_t *)vh_alloc(5 * sizeof(wchar_t));
    for (int i = 0; i < 5; i++) dest[i] = 0x5a5a;
    int n = _decomp_s(dest, 5, cp, false);
    uint8_t cc = _combin_class(cp);
    if (!unassigned(cp)) {
        CHECK("C17", cc == ref_ccc_lookup(cp), "canonical combining class differs from the UCD");
        if (cp >= 0xAC00 && cp <= 0xD7A3) {
            unsigned s = cp - 0xAC00, l = 0x1100 + s / 588, v = 0x1161 + (s % 588) / 28, t = 0x11A7 + s % 28;
            CHECK("C17", n == (t == 0x11A7 ? 2 : 3), "Hangul syllable: wrong decomposition length");
            CHECK("C17", (unsigned)dest[0] == l && (unsigned)dest[1] == v && (t == 0x11A7 || (unsigned)dest[2] == t), "Hangul syllable: wrong jamo");
        } else {
            int k = ref_lookup(ref_dec, REF_NDEC, cp);
            if (k < 0) CHECK("C17", n == 0, "code point without canonical decomposition is decomposed");
            else {
                CHECK("C17", n == (int)ref_dec[k][1], "canonical decomposition has the wrong length");
                for (int i = 0; i < 4; i++)
                    if (i < (int)ref_dec[k][1]) CHECK("C17", (unsigned)dest[i] == ref_dec[k][2 + i], "canonical decomposition differs from UAX #15 (NFD of the code point)");
            }
        }
    }
    REACH("end");
VH_MAIN_END
