/* h_copy.c - harness for the string copy / concatenate family, element width 1 or 4:
 *   strcpy_s strncpy_s strcat_s strncat_s stpcpy_s stpncpy_s wcscpy_s wcsncpy_s wcscat_s wcsncat_s
 * Parameters (-D): T elem type, NMAX, KIND, CALL, RMAX (RSIZE_MAX_STR/WSTR), PROP_Cxx,
 *   LAYOUT_A (one arena, overlap possible) | default layout G (separate objects),
 *   EXACT (objects of exactly the declared size, no red zones: read checks),
 *   NOSLACK (library built without SAFECLIB_STR_NULL_SLACK), FIX_* (slice geometry).
 */
#include "safeclib_private.h"

#define K_CPY 1
#define K_NCPY 2
#define K_CAT 3
#define K_NCAT 4
#define K_STPCPY 5
#define K_STPNCPY 6
#define HAS_SLEN (KIND == K_NCPY || KIND == K_NCAT || KIND == K_STPNCPY)
#define IS_CAT (KIND == K_CAT || KIND == K_NCAT)
#define IS_STP (KIND == K_STPCPY || KIND == K_STPNCPY)

#ifndef NA
#define NA (2 * NMAX)
#endif

#ifdef LAYOUT_A
#define VH_INPUTS(S, A)                                                        \
    S(size_t, dmax) S(size_t, slen) S(size_t, doff) S(size_t, soff)            \
    S(unsigned char, dbos_known) S(unsigned char, sbos_known)                  \
    A(T, arena, NA)
#else
#define VH_INPUTS(S, A)                                                        \
    S(size_t, dmax) S(size_t, slen) S(size_t, dobj) S(size_t, sobj)            \
    S(unsigned char, dbos_known) S(unsigned char, sbos_known)                  \
    S(unsigned char, dnull) S(unsigned char, snull) S(unsigned char, order)    \
    S(unsigned char, errnull)                                                  \
    A(T, dfull, NMAX + 2 * VH_RZ) A(T, sfull, NMAX + 2 * VH_RZ)
#endif
#include "vh.h"

static errno_t vh_err;
static T *vh_retp;
static int vh_stp(T *r, int errnull) {
    vh_retp = r;
    return errnull ? (r ? 0 : -1) : vh_err;
}

VH_MAIN_BEGIN
    size_t dmax = in.dmax, slen = in.slen;
    T *dest = 0, *src = 0;
    size_t dobj, sobj;
    size_t destbos, srcbos;
    int rc;
#ifdef FIX_DMAX
    dmax = in.dmax = FIX_DMAX;
#endif
#ifdef FIX_SLEN
    slen = in.slen = FIX_SLEN;
#endif
#if !HAS_SLEN
    slen = in.slen = (size_t)-1;
#endif

#ifdef LAYOUT_A
    /* ---------------- one arena: any relative placement, overlap possible */
    static T arena0[NA];
    T *arena;
#ifdef FIX_DOFF
    in.doff = FIX_DOFF;
#endif
#ifdef FIX_SOFF
    in.soff = FIX_SOFF;
#endif
    ASSUME(in.doff <= NA && in.soff <= NA);
    arena = (T *)vh_alloc(NA * sizeof(T));
    for (unsigned i = 0; i < NA; i++)
        arena[i] = arena0[i] = in.arena[i];
    dest = arena + in.doff;
    src = arena + in.soff;
    dobj = NA - in.doff;
    sobj = NA - in.soff;
    const int dnull = 0, snull = 0, errnull = 0;
    ASSUME(dmax <= dobj); /* truthful: dest+dmax inside the arena (huge dmax: layout G) */
#else
    /* ---------------- separate objects */
    const int dnull = in.dnull, snull = in.snull;
    const int errnull = IS_STP ? in.errnull : 0;
#ifdef FIX_DOBJ
    in.dobj = FIX_DOBJ;
#endif
#ifdef FIX_SOBJ
    in.sobj = FIX_SOBJ;
#endif
#ifdef FIX_ORDER
    in.order = FIX_ORDER;
#endif
    dobj = in.dobj;
    sobj = in.sobj;
    ASSUME(dobj <= NMAX && sobj <= NMAX);
#ifdef FIX_DL
    /* concatenation slices: old dest = FIX_DL concrete non-NUL characters + NUL, so that the library's
       "find the end of dest" loop folds and dest stays a concrete offset (DESIGN 2.1) */
    for (unsigned i = 0; i < FIX_DL; i++)
        in.dfull[VH_RZ + i] = (T)(0x41 + i);
    in.dfull[VH_RZ + FIX_DL] = 0;
#endif
#ifdef EXACT
    /* objects of exactly the declared size: CBMC's pointer checks are the faulting boundary */
#define OBJ(n) ((T *)vh_alloc((n) * sizeof(T)))
#define OBJSZ(n) (n)
    T *dbase, *sbase;
    if (in.order) {
        dbase = OBJ(dobj);
        sbase = OBJ(sobj);
    } else {
        sbase = OBJ(sobj);
        dbase = OBJ(dobj);
    }
    if (!dnull) dest = dbase;
    if (!snull) src = sbase;
#else
    /* fixed-size objects [VH_RZ | NMAX | VH_RZ]; the declared extent is the first dobj elements
       after the front red zone; everything else must stay untouched (frame condition) */
#define FULL (NMAX + 2 * VH_RZ)
    T *dbase, *sbase;
    if (in.order) {
        dbase = (T *)vh_alloc(FULL * sizeof(T));
        sbase = (T *)vh_alloc(FULL * sizeof(T));
    } else {
        sbase = (T *)vh_alloc(FULL * sizeof(T));
        dbase = (T *)vh_alloc(FULL * sizeof(T));
    }
    for (unsigned i = 0; i < FULL; i++) {
        dbase[i] = in.dfull[i];
        sbase[i] = in.sfull[i];
    }
    if (!dnull) dest = dbase + VH_RZ;
    if (!snull) src = sbase + VH_RZ;
#endif
#ifdef EXACT
    for (unsigned i = 0; i < NMAX; i++)
        if (i < dobj) dbase[i] = in.dfull[VH_RZ + i];
    for (unsigned i = 0; i < NMAX; i++)
        if (i < sobj) sbase[i] = in.sfull[VH_RZ + i];
#endif
    const T *arena0 = 0;
#endif
    destbos = in.dbos_known ? dobj * sizeof(T) : BOS_UNKNOWN;
    srcbos = in.sbos_known ? sobj * sizeof(T) : BOS_UNKNOWN;

    /* ---------------- reference view of the operands (declared extents only) */
#ifdef LAYOUT_A
#define DPRE(i) arena0[in.doff + (i)]
#define SPRE(i) arena0[in.soff + (i)]
#else
#define DPRE(i) in.dfull[VH_RZ + (i)]
#define SPRE(i) in.sfull[VH_RZ + (i)]
#endif
    /* length of src within what may be read: min(sobj, slen, ...) */
    size_t scap = sobj;
    if (HAS_SLEN && slen < scap) scap = slen;
    size_t sl = 0; /* characters before the terminator, within scap */
    int sterm = 0;
    if (!snull) {
        while (sl < scap && sl < NA) {
            if (SPRE(sl) == 0) { sterm = 1; break; }
            sl++;
        }
    }
    /* truthful caller (C01/C02 hypothesis): dest has dmax elements unless the size is one the
       library must reject up front; src is terminated inside its object, or holds at least the
       number of elements the function may read: min(slen, dmax) */
    {
        size_t need = dmax < slen ? dmax : slen;
        ASSUME(dnull || dmax <= dobj || (dmax > RMAX && !in.dbos_known) || (in.dbos_known && dobj >= 1));
        ASSUME(snull || sterm || sobj >= need || (HAS_SLEN && in.sbos_known && slen > sobj));
    }
    size_t dl = 0; /* strlen of old dest within dmax (cat) */
    int dterm = 0;
    if (!dnull && dmax <= dobj) {
        while (dl < dmax) {
            if (DPRE(dl) == 0) { dterm = 1; break; }
            dl++;
        }
    }
#ifdef SHORT_OPS
    /* "memset path" slice: big concrete dmax, operands short, so that more than 0x20 elements of slack remain
       (the library then clears with memset instead of the element loop) and the copy loops stay short */
    ASSUME(snull || (sl <= SHORT_OPS && (sterm || (HAS_SLEN && slen <= SHORT_OPS))));
    ASSUME(!IS_CAT || dnull || (dterm && dl <= 1));
#endif
    const int usable = !dnull && dmax > 0 && dmax <= RMAX && dmax <= dobj;
    const size_t n = sl;                  /* chars to copy: min(strlen(src), slen) (scap folded in) */
    const size_t base = IS_CAT ? dl : 0;  /* where they go */
    /* documented special cases: strncpy_s/wcsncpy_s with slen == 0 succeed with an empty dest and do not
       look at src; strncat_s/wcsncat_s with slen == 0: "analog to msvcrt" (EOK or ESZEROL, dest emptied),
       and (NULL, 0, src, 0) is a silent EOK */
    const int ncpy0 = (KIND == K_NCPY && slen == 0);
    const int ncat0 = (KIND == K_NCAT && slen == 0);

#ifdef GUARD_ONLY
    /* guard-section slice: only sizes the entry checks must reject (or the empty request) */
    ASSUME(dmax == 0 || dmax > dobj || dnull || snull);
#endif
#ifdef VH_EXCLUDE
    ASSUME(!(VH_EXCLUDE));
#endif
#ifdef VH_ONLY
    ASSUME(VH_ONLY);
#endif

    set_str_constraint_handler_s(vh_handler);
    vh_err = 0x7777;
    rc = CALL;

#ifdef LAYOUT_A
    /* overlap geometry (elements of the arena): what the call reads of src and writes of dest when nothing else is wrong */
    size_t dl_ = dl, n_ = n;
    int dterm_ = dterm;
    size_t rd = n_ + (sterm ? 1 : 0);             /* read extent of src */
    size_t wr = base + n_ + 1;                     /* written extent of dest (elements) */
    size_t d0 = in.doff, s0 = in.soff;
    int obj_disjoint = ((d0 + dmax <= s0) || (s0 + rd <= d0)) && d0 != s0; /* identical pointers: not judged here */
    int rw_intersect = !((d0 + (wr < dmax ? wr : dmax) <= s0) || (s0 + rd <= d0 + base));
    int prec = dmax > 0 && dmax <= RMAX && (!HAS_SLEN || slen <= RMAX) && (!IS_CAT || dterm_) && !ncat0 &&
               !(HAS_SLEN && in.sbos_known && slen * sizeof(T) > srcbos);
    (void)dl_; (void)obj_disjoint; (void)rw_intersect; (void)prec; (void)rd; (void)wr; (void)d0; (void)s0;
#endif
    /* ================= assertions ================= */
#if defined(PROP_C01)
#if !defined(LAYOUT_A) && !defined(EXACT)
    for (unsigned i = 0; i < FULL; i++) {
        int in_dest = !dnull && i >= VH_RZ && i < VH_RZ + (dmax < dobj ? dmax : dobj);
        if (!in_dest) CHECK("C01", dbase[i] == in.dfull[i], "write outside dest[0..dmax)");
        CHECK("C01", sbase[i] == in.sfull[i], "source object (or its surroundings) modified");
    }
#endif
#ifdef LAYOUT_A
    for (unsigned i = 0; i < NA; i++)
        if (i < in.doff || i >= in.doff + dmax)
            CHECK("C01", arena[i] == arena0[i], "write outside dest[0..dmax) in arena");
#endif
#endif

#if defined(PROP_C03)
    if (usable) {
        int z = 0;
        for (unsigned i = 0; i < NMAX; i++)
            if (i < dmax && dest[i] == 0) z = 1;
        CHECK("C03", z, "dest left without terminator within dmax");
    }
#endif

#if defined(PROP_C04)
    if (usable && rc != EOK) {
        CHECK("C04", dest[0] == 0, "failed call: dest[0] != 0");
#if defined(LAYOUT_A) && !defined(NOSLACK)
        if (rc == ESOVRLP) /* met after copying began: every element of dest[0..dmax) is cleared */
            for (unsigned i = 0; i < NA; i++)
                if (i >= d0 && i < d0 + dmax) CHECK("C04", arena[i] == 0, "overlap failure: dest holds part of the copy");
#endif
#ifndef LAYOUT_A
        for (unsigned i = 0; i < NMAX; i++)
#ifndef KF_NOSLACK_PARTIAL
            if (i < dmax) CHECK("C04", dest[i] == 0 || dest[i] == DPRE(i), "failed call: dest holds data the call wrote");
#endif
#ifndef NOSLACK
        /* failure met after copying began / dest unterminated / src null: all dmax elements zero */
        int slen_bad = HAS_SLEN && (slen > RMAX || (in.sbos_known && slen * sizeof(T) > srcbos));
        int nospace = !snull && (!IS_CAT || dterm) && !slen_bad && base + n + 1 > dmax;
        if (snull || (IS_CAT && !dterm && !slen_bad) || nospace)
            for (unsigned i = 0; i < NMAX; i++)
                if (i < dmax) CHECK("C04", dest[i] == 0, "failed call (no space/unterminated/null src): dest not fully cleared");
#endif
        if (src)
            for (unsigned i = 0; i < NMAX; i++)
                if (i < sobj) CHECK("C04", src[i] == SPRE(i), "failed call modified src");
#endif
    }
#endif

#if defined(PROP_C05)
    {
        /* documented runtime-constraints of this family */
        int viol = dnull || dmax == 0 || dmax > RMAX || (in.dbos_known && dmax * sizeof(T) > destbos) ||
                   (snull && !ncpy0) || (IS_STP && errnull);

        if (!viol && HAS_SLEN) viol = slen > RMAX || (in.sbos_known && slen * sizeof(T) > srcbos);
        if (!viol && IS_CAT && !dterm) viol = 1;
        if (!viol && base + n + 1 > dmax) viol = 1; /* result + terminator does not fit */
        if (ncat0 && dnull && dmax == 0) viol = 0; /* documented silent EOK */
#ifdef LAYOUT_A
        /* overlap: decided in C07; here only that whatever is reported is reported once */
        if (in.doff == in.soff) viol = rc != EOK;                         /* identical pointers: accepted where documented, judged by C07 */
        else if (!viol && prec && rw_intersect) viol = 1;                  /* reads and writes intersect */
        else if (!viol && !obj_disjoint) viol = rc != EOK;                /* touching objects, no intersection: C07 */
#endif
        if (viol) {
            CHECK("C05", rc != EOK, "constraint violated but success returned");
            CHECK("C05", vh_h_count == 1, "handler not invoked exactly once for a violation");
            if (!errnull) CHECK("C05", vh_h_code == rc, "handler code differs from returned code");
            if (IS_STP) CHECK("C05", vh_retp == 0, "stp*: non-null return on violation");
        } else {
            CHECK("C05", rc == EOK, "no constraint violated but failure returned");
            CHECK("C05", vh_h_count == 0, "handler invoked without violation");
        }
    }
#endif

#if defined(PROP_C06) && !defined(LAYOUT_A)
    {
        int pre_ok = usable && (!snull || ncpy0) && !ncat0 && !(IS_STP && errnull) && !(HAS_SLEN && slen > RMAX) &&
                     !(HAS_SLEN && in.sbos_known && slen * sizeof(T) > srcbos) && (!IS_CAT || dterm);
        if (pre_ok) {
            int fits = base + n + 1 <= dmax;
            if (!fits) CHECK("C06", rc != EOK, "result does not fit but success returned (truncation)");
            if (rc == EOK) {
                CHECK("C06", fits, "success although result cannot fit");
                for (unsigned i = 0; i < NMAX; i++) {
                    if (i < base) CHECK("C06", dest[i] == DPRE(i), "cat: old dest prefix changed");
                    else if (i < base + n && i < dmax) CHECK("C06", dest[i] == SPRE(i - base), "copied element differs from source");
                    else if (i == base + n && i < dmax) CHECK("C06", dest[i] == 0, "terminator missing at end of result");
                }
                if (IS_STP) CHECK("C06", vh_retp == dest + base + n, "stp*: returned pointer is not the terminator");
            }
        }
    }
#endif

#if defined(PROP_C08) && !defined(LAYOUT_A)
    if (usable && rc == EOK) {
        unsigned k = NMAX;
        for (unsigned i = 0; i < NMAX; i++)
            if (i < dmax && dest[i] == 0 && k == NMAX) k = i;
        CHECK("C08", k < dmax, "success without terminator");
#ifndef NOSLACK
        for (unsigned i = 0; i < NMAX; i++)
            if (i > k && i < dmax) CHECK("C08", dest[i] == 0, "stale data behind the terminator");
#endif
    }
#endif

#if defined(PROP_C07) && defined(LAYOUT_A)
    {
        if (prec && obj_disjoint) {
            int fits = base + n_ + 1 <= dmax && (sterm || HAS_SLEN);
            if (fits) {
                CHECK("C07", rc == EOK, "disjoint operands rejected");
                for (unsigned i = 0; i < NA; i++)
                    if (i >= d0 && i < d0 + dmax) {
                        size_t j = i - d0;
                        if (j < base) CHECK("C07", arena[i] == arena0[i], "old dest changed");
                        else if (j < base + n_) CHECK("C07", arena[i] == arena0[s0 + j - base], "wrong element copied");
                        else if (j == base + n_) CHECK("C07", arena[i] == 0, "terminator missing");
                    }
            } else
                CHECK("C07", rc != EOK, "no space but success");
        }
        if (prec && in.doff != in.soff && rw_intersect && base + n_ + 1 <= dmax)
            CHECK("C07", rc == ESOVRLP, "written and read elements intersect but no ESOVRLP");
        if (rc == ESOVRLP) {
            CHECK("C07", !obj_disjoint, "ESOVRLP for disjoint operands");
            for (unsigned i = 0; i < NA; i++)
                if (i >= d0 && i < d0 + dmax)
                    CHECK("C07", arena[i] == 0, "ESOVRLP but dest not cleared");
        }
        if (rc == EOK && in.doff != in.soff && !ncat0) {
            /* never a silently corrupted copy */
            for (unsigned i = 0; i < NA; i++)
                if (i >= d0 && i < d0 + dmax) {
                    size_t j = i - d0;
                    if (j < base) CHECK("C07", arena[i] == arena0[i], "EOK: old dest changed");
                    else if (j < base + n_) CHECK("C07", arena[i] == arena0[s0 + j - base], "EOK: corrupted copy");
                    else if (j == base + n_) CHECK("C07", arena[i] == 0, "EOK: terminator missing");
                }
        }
    }
#endif
    REACH("end");
#ifdef WITNESS
    if (rc == EOK) REACH("eok");
    if (rc != EOK) REACH("fail");
#endif
VH_MAIN_END
