/* h_tokdl.c - C14: the STRTOK_DELIM_MAX_LEN edge.  A delimiter set of exactly 16 characters is legal and must
 * tokenise normally; 17 characters is a constraint violation (NULL, handler).  String: 2 symbolic chars + NUL. */
#include "safeclib_private.h"
#define VH_INPUTS(S, A) A(unsigned char, s, 2) S(unsigned char, hit)
#include "vh.h"
VH_MAIN_BEGIN
    T *s = (T *)vh_alloc(3 * sizeof(T));
    T delim[DLEN + 1];
    for (unsigned i = 0; i < DLEN; i++) delim[i] = (T)('A' + i);
    delim[DLEN] = 0;
    /* characters: 'x' (never a delimiter) or the LAST delimiter of the set */
    s[0] = (in.s[0] & 1) ? (T)'x' : delim[DLEN - 1];
    s[1] = (in.s[1] & 1) ? (T)'x' : delim[DLEN - 1];
    s[2] = 0;
    T s0 = s[0], s1 = s[1];
    rsize_t rem = 3;
    T *ptr = 0;
    set_str_constraint_handler_s(vh_handler);
    T *tok = TOK(s, &rem, delim, &ptr, BOS_UNKNOWN);
#if DLEN <= 16
    if (s0 == 'x') {
        CHECK("C14", tok == s, "16-character delimiter set: first token not returned");
        CHECK("C14", vh_h_count == 0, "16-character delimiter set rejected");
        if (s1 != 'x') CHECK("C14", s[1] == 0, "token-ending delimiter not nulled");
    } else if (s1 == 'x') {
        CHECK("C14", tok == s + 1, "leading delimiter (last of 16) not skipped");
    } else
        CHECK("C14", tok == 0, "only delimiters: NULL expected");
#else
    if (s0 == 'x' || s1 == 'x') {
        /* a character that is not among the first 16 delimiters forces the scan past STRTOK_DELIM_MAX_LEN */
        if (s0 == 'x') {
            CHECK("C14", tok == 0, "17-character delimiter set: must be rejected");
            CHECK("C14", vh_h_count == 1, "17-character delimiter set: handler once");
        }
    }
#endif
    REACH("end");
VH_MAIN_END
