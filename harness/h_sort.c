/* h_sort.c - C16: qsort_s (musl smoothsort) and bsearch_s.  base is an object of exactly nmemb*size bytes (guard object),
 * element i = [key byte][tag byte = original index (size >= 2)][other payload bytes symbolic].  Concrete nmemb and size per job. */
#include "safeclib_private.h"
#include "safe_lib.h"
#ifndef NMEMB
#define NMEMB 3
#endif
#ifndef ESIZE
#define ESIZE 1
#endif
#ifndef KEYS
#define KEYS 4
#endif
#define TOT ((NMEMB) * (ESIZE) > 0 ? (NMEMB) * (ESIZE) : 1)
#define VH_INPUTS(S, A) A(unsigned char, bytes, TOT) S(unsigned char, key) S(unsigned char, bos_known) S(unsigned char, basenull)
#include "vh.h"

static unsigned char *g_base;
static int g_ctx_obj;
static int cmp_calls;
static const unsigned char *g_key; /* bsearch: the key object */
static int cmp(const void *x, const void *y, void *ctx) {
    const unsigned char *a = (const unsigned char *)x, *b = (const unsigned char *)y;
    cmp_calls++;
    CHECK("C16", ctx == (void *)&g_ctx_obj, "comparator did not receive the caller's context");
#ifdef IS_BSEARCH
    CHECK("C16", a == g_key, "bsearch_s: first comparator argument is not the key");
#else
    CHECK("C16", a >= g_base && a < g_base + (NMEMB) * (ESIZE) && (size_t)(a - g_base) % (ESIZE) == 0, "comparator called with a pointer that is not an element of the array (x)");
#endif
    CHECK("C16", b >= g_base && b < g_base + (NMEMB) * (ESIZE) && (size_t)(b - g_base) % (ESIZE) == 0, "comparator called with a pointer that is not an element of the array (y)");
    return (int)a[0] - (int)b[0];
}

VH_MAIN_BEGIN
    unsigned char *base = (unsigned char *)vh_alloc((NMEMB) * (ESIZE));
    g_base = base;
    for (unsigned i = 0; i < NMEMB; i++) {
        in.bytes[i * (ESIZE)] %= KEYS; /* small key set so that duplicates occur */
#if ESIZE >= 2
        in.bytes[i * (ESIZE) + 1] = (unsigned char)i; /* tag */
#endif
    }
    for (unsigned i = 0; i < (NMEMB) * (ESIZE); i++)
        base[i] = in.bytes[i];
    set_mem_constraint_handler_s(vh_handler);
    size_t bos = in.bos_known ? (size_t)(NMEMB) * (ESIZE) : BOS_UNKNOWN;
#ifdef IS_BSEARCH
    /* sorted array */
    for (unsigned i = 0; i + 1 < NMEMB; i++)
        ASSUME(in.bytes[i * (ESIZE)] <= in.bytes[(i + 1) * (ESIZE)]);
    unsigned char keyobj[1];
    keyobj[0] = in.key % (KEYS + 1);
    g_key = keyobj;
    unsigned char *r = (unsigned char *)_bsearch_s_chk(keyobj, base, NMEMB, ESIZE, cmp, &g_ctx_obj, bos);
    int exists = 0;
    for (unsigned i = 0; i < NMEMB; i++)
        if (in.bytes[i * (ESIZE)] == keyobj[0]) exists = 1;
    CHECK("C16", (r != 0) == exists, "bsearch_s: a matching element is returned iff one exists");
    if (r) {
        CHECK("C16", r >= base && r < base + (NMEMB) * (ESIZE) && (size_t)(r - base) % (ESIZE) == 0, "bsearch_s: result is not an element of the array");
        CHECK("C16", r[0] == keyobj[0], "bsearch_s: returned element does not match the key");
    }
    for (unsigned i = 0; i < (NMEMB) * (ESIZE); i++)
        CHECK("C16", base[i] == in.bytes[i], "bsearch_s modified the array");
    CHECK("C16", vh_h_count == 0, "handler invoked on valid arguments");
#else
    errno_t rc = _qsort_s_chk(base, NMEMB, ESIZE, cmp, &g_ctx_obj, bos);
    CHECK("C16", rc == EOK, "qsort_s failed on valid arguments");
    CHECK("C16", vh_h_count == 0, "handler invoked on valid arguments");
    for (unsigned i = 0; i + 1 < NMEMB; i++)
        CHECK("C16", base[i * (ESIZE)] <= base[(i + 1) * (ESIZE)], "qsort_s: result not ordered");
#if ESIZE >= 2
    /* permutation: every tag once, and each element arrives with all of its bytes */
    for (unsigned t = 0; t < NMEMB; t++) {
        unsigned cnt = 0;
        for (unsigned i = 0; i < NMEMB; i++)
            if (base[i * (ESIZE) + 1] == t) {
                cnt++;
                for (unsigned j = 0; j < ESIZE; j++)
                    CHECK("C16", base[i * (ESIZE) + j] == in.bytes[t * (ESIZE) + j], "qsort_s: element bytes corrupted (not a permutation of whole elements)");
            }
        CHECK("C16", cnt == 1, "qsort_s: result is not a permutation of the original elements");
    }
#else
    for (unsigned v = 0; v < KEYS; v++) {
        unsigned c0 = 0, c1 = 0;
        for (unsigned i = 0; i < NMEMB; i++) {
            if (in.bytes[i] == v) c0++;
            if (base[i] == v) c1++;
        }
        CHECK("C16", c0 == c1, "qsort_s: result is not a permutation of the original elements");
    }
#endif
#endif
    REACH("end");
VH_MAIN_END
