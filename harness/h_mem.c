/* h_mem.c - harness for the memory copy / move / fill family (byte, 16, 32 bit and wchar_t units):
 *   memcpy_s memmove_s memcpy16_s memcpy32_s memmove16_s memmove32_s wmemcpy_s wmemmove_s
 *   memset_s memset16_s memset32_s memzero_s memzero16_s memzero32_s memccpy_s
 * Everything is kept in bytes here.  Parameters (-D):
 *   KIND, CALL, DU (bytes per unit of the dest size argument), SU (bytes per unit of the count argument),
 *   RMAXB (limit of the dest size in bytes), NB (max bytes of an operand), PROP_Cxx,
 *   LAYOUT_A + FIX_DOFF/FIX_SOFF (one arena, concrete offsets), EXACT (exact objects), FIX_*.
 * Variables visible to CALL: dest, src (void*), dmax, slen (in the function's own units), value, destbos, srcbos.
 */
#include "safeclib_private.h"

#define K_MCPY 1
#define K_MMOVE 2
#define K_MSET 3
#define K_MZERO 4
#define K_MCCPY 5
#define IS_COPY (KIND == K_MCPY || KIND == K_MMOVE || KIND == K_MCCPY)
#define HAS_SRC IS_COPY
#ifndef PAD
#define PAD 0
#endif
#ifndef NA
#define NA (3 * NB + 2)
#endif
#define FULLB (NB + 2 * VH_RZ + 8)

#ifdef LAYOUT_A
#define VH_INPUTS(S, A)                                                        \
    S(size_t, dmax) S(size_t, slen) S(size_t, doff) S(size_t, soff)            \
    S(unsigned char, dbos_known) S(unsigned char, sbos_known) S(unsigned, value) \
    A(unsigned char, arena, NA)
#else
#define VH_INPUTS(S, A)                                                        \
    S(size_t, dmax) S(size_t, slen) S(size_t, dobj) S(size_t, sobj)            \
    S(unsigned char, dbos_known) S(unsigned char, sbos_known)                  \
    S(unsigned char, dnull) S(unsigned char, snull) S(unsigned char, order)    \
    S(unsigned, value)                                                         \
    A(unsigned char, dfull, FULLB) A(unsigned char, sfull, FULLB)
#endif
#include "vh.h"

VH_MAIN_BEGIN
    size_t dmax = in.dmax, slen = in.slen; /* in the function's units */
    unsigned char *dest = 0, *src = 0;
    size_t dobj, sobj;                     /* object sizes in bytes */
    size_t destbos, srcbos;
    unsigned value;
    int rc;
#ifdef FIX_DMAX
    dmax = in.dmax = FIX_DMAX;
#endif
#ifdef FIX_SLEN
    slen = in.slen = FIX_SLEN;
#endif
#ifdef FIX_VALUE
    in.value = FIX_VALUE;
#endif
#if KIND == K_MZERO
    slen = in.slen = dmax; /* single size argument */
    in.value = 0;
#endif
    value = in.value;
#if KIND == K_MSET && SU == 1
    /* memset_s takes int */
#elif KIND == K_MSET && SU == 2
    value &= 0xffff;
#endif

#ifdef LAYOUT_A
    static unsigned char arena0[NA];
    unsigned char *arena;
#ifdef FIX_DOFF
    in.doff = FIX_DOFF;
#endif
#ifdef FIX_SOFF
    in.soff = FIX_SOFF;
#endif
    ASSUME(in.doff <= NA && in.soff <= NA);
    arena = (unsigned char *)vh_alloc(NA + 8) + PAD;
    for (unsigned i = 0; i < NA; i++)
        arena[i] = arena0[i] = in.arena[i];
    dest = arena + in.doff;
    src = arena + in.soff;
    dobj = NA - in.doff;
    sobj = NA - in.soff;
    const int dnull = 0, snull = 0;
#else
#ifdef NO_NULLS
    in.dnull = in.snull = 0; /* body slices: NULL operands are explored in the guard slice only, so pointers stay concrete */
#endif
    const int dnull = in.dnull, snull = HAS_SRC ? in.snull : 0;
#ifdef FIX_DOBJ
    in.dobj = FIX_DOBJ;
#endif
#ifdef FIX_SOBJ
    in.sobj = FIX_SOBJ;
#endif
#ifdef FIX_ORDER
    in.order = FIX_ORDER;
#endif
    dobj = in.dobj;
    sobj = in.sobj;
    ASSUME(dobj <= NB && sobj <= NB);
    unsigned char *dbase, *sbase;
#ifdef EXACT
    if (in.order) {
        dbase = (unsigned char *)vh_alloc(dobj);
        sbase = (unsigned char *)vh_alloc(sobj);
    } else {
        sbase = (unsigned char *)vh_alloc(sobj);
        dbase = (unsigned char *)vh_alloc(dobj);
    }
    for (unsigned i = 0; i < NB; i++)
        if (i < dobj) dbase[i] = in.dfull[i];
    for (unsigned i = 0; i < NB; i++)
        if (i < sobj) sbase[i] = in.sfull[i];
    if (!dnull) dest = dbase;
    if (!snull) src = sbase;
#define DOFF0 0
#define SOFF0 0
#else
    if (in.order) {
        dbase = (unsigned char *)vh_alloc(FULLB);
        sbase = (unsigned char *)vh_alloc(FULLB);
    } else {
        sbase = (unsigned char *)vh_alloc(FULLB);
        dbase = (unsigned char *)vh_alloc(FULLB);
    }
    for (unsigned i = 0; i < FULLB; i++) {
        dbase[i] = in.dfull[i];
        sbase[i] = in.sfull[i];
    }
#ifndef SPAD
#define SPAD PAD
#endif
#define DOFF0 (VH_RZ + PAD)
#define SOFF0 (VH_RZ + SPAD)
    if (!dnull) dest = dbase + DOFF0;
    if (!snull) src = sbase + SOFF0;
#endif
#endif
    destbos = in.dbos_known ? dobj : BOS_UNKNOWN;
    srcbos = in.sbos_known ? sobj : BOS_UNKNOWN;

    /* byte views */
    const size_t dbytes = dmax * DU;              /* declared dest size */
    const size_t nbytes = slen * SU;              /* bytes to copy / set */
    const int dmax_ovf = DU > 1 && dmax > (size_t)-1 / DU;
    const int slen_ovf = SU > 1 && slen > (size_t)-1 / SU;
#ifdef LAYOUT_A
#define DPRE(i) arena0[in.doff + (i)]
#define SPRE(i) arena0[in.soff + (i)]
    ASSUME(!dmax_ovf && dbytes <= dobj);
#else
#define DPRE(i) in.dfull[DOFF0 + (i)]
#define SPRE(i) in.sfull[SOFF0 + (i)]
    /* truthful caller: dest really has the declared bytes (or the size is one that must be rejected up front, or
       the library knows the object size); src has the bytes that are to be read */
    ASSUME(dnull || (!dmax_ovf && dbytes <= dobj) || ((dmax_ovf || dbytes > RMAXB) && !in.dbos_known) ||
           (in.dbos_known && dobj >= 1));
    if (HAS_SRC) {
        size_t rd = nbytes < dbytes ? nbytes : dbytes;
        ASSUME(snull || slen_ovf || sobj >= rd || (KIND != K_MCCPY && in.sbos_known && nbytes > sobj));
    }
#endif
    /* outside the claim (DESIGN 3): size arguments so large that their byte count wraps around 2^64 */
    ASSUME(!dmax_ovf && !slen_ovf);
    const int usable = !dnull && dmax > 0 && !dmax_ovf && dbytes <= RMAXB && dbytes <= dobj;

#ifdef GUARD_ONLY
    ASSUME(dmax == 0 || dmax_ovf || dbytes > dobj || dnull || snull);
#endif
#ifdef VH_EXCLUDE
    ASSUME(!(VH_EXCLUDE));
#endif
#ifdef VH_ONLY
    ASSUME(VH_ONLY);
#endif

    set_mem_constraint_handler_s(vh_handler);
    set_str_constraint_handler_s(vh_handler);
    rc = CALL;

    /* reference classification (documented runtime-constraints of this family) */
    int viol = 0;
#if IS_COPY && KIND != K_MCCPY
    if (slen == 0) viol = 0; /* "since C11 slen == 0 is allowed": nothing is looked at */
    else
#endif
#if KIND == K_MSET
    if (!dnull && slen == 0) viol = 0;
    else
#endif
    {
        viol = dnull || (KIND != K_MSET && dmax == 0) || dmax_ovf || (!in.dbos_known && dbytes > RMAXB) ||
               (in.dbos_known && dbytes > destbos);
        if (!viol && KIND == K_MCCPY && slen == 0) viol = 0;
        else {
            if (!viol && HAS_SRC) viol = snull || slen_ovf || nbytes > dbytes || (KIND != K_MCCPY && in.sbos_known && nbytes > srcbos);
            if (!viol && KIND == K_MSET) viol = slen_ovf || nbytes > dbytes || (SU == 1 && (int)value > 255);
        }
    }
    (void)viol;

#if defined(PROP_C01)
#if !defined(LAYOUT_A) && !defined(EXACT)
    for (unsigned i = 0; i < FULLB; i++) {
        size_t lim = dbytes < dobj ? dbytes : dobj;
        if (dmax_ovf) lim = dobj;
        int in_dest = !dnull && i >= DOFF0 && i < DOFF0 + lim;
        if (!in_dest) CHECK("C01", dbase[i] == in.dfull[i], "write outside dest[0..dmax)");
        CHECK("C01", sbase[i] == in.sfull[i], "source object (or its surroundings) modified");
    }
#endif
#ifdef LAYOUT_A
    for (unsigned i = 0; i < NA; i++)
        if (i < in.doff || i >= in.doff + dbytes)
            CHECK("C01", arena[i] == arena0[i], "write outside dest[0..dmax) in arena");
#endif
#endif

#if defined(PROP_C04) && IS_COPY && !defined(LAYOUT_A)
    if (usable && rc != EOK) {
        CHECK("C04", dest[0] == 0, "failed call: dest[0] != 0");
        for (unsigned i = 0; i < NB; i++)
            if (i < dbytes) CHECK("C04", dest[i] == 0 || dest[i] == DPRE(i), "failed call: dest holds data the call wrote");
        /* null source, or no space: all dmax bytes zero */
        if (snull || (!slen_ovf && nbytes > dbytes && !(in.sbos_known && nbytes > srcbos)))
            for (unsigned i = 0; i < NB; i++)
                if (i < dbytes) CHECK("C04", dest[i] == 0, "failed call (null src / no space): dest not fully cleared");
        if (src)
            for (unsigned i = 0; i < NB; i++)
                if (i < sobj) CHECK("C04", src[i] == SPRE(i), "failed call modified src");
    }
#endif

#if defined(PROP_C05)
#if KIND == K_MCCPY
    {
        int found = 0;
        for (unsigned i = 0; i < NB; i++)
            if (i < nbytes && i < sobj && SPRE(i) == (unsigned char)value && (int)value >= 0 && (int)value < 256) found = 1;
        if (!viol && !found && nbytes == dbytes && slen > 0) viol = 1; /* reported as ESNOSPC */
    }
#endif
    if (viol) {
        CHECK("C05", rc != EOK, "constraint violated but success returned");
        CHECK("C05", vh_h_count == 1, "handler not invoked exactly once for a violation");
        CHECK("C05", vh_h_code == rc, "handler code differs from returned code");
#ifndef LAYOUT_A
        /* a size above the RSIZE limit is rejected before dest or src is touched */
        if (!dnull && (dmax_ovf || dbytes > RMAXB) && !in.dbos_known)
            for (unsigned i = 0; i < NB; i++)
                if (i < dobj) CHECK("C05", dest[i] == DPRE(i), "dest touched although the size exceeds RSIZE_MAX");
#endif
    } else {
#ifndef LAYOUT_A
        CHECK("C05", rc == EOK, "no constraint violated but failure returned");
        CHECK("C05", vh_h_count == 0, "handler invoked without violation");
#else
        /* overlap is judged by C07; here: whatever is reported is reported exactly once with the returned code */
        if (rc != EOK) {
            CHECK("C05", vh_h_count == 1, "handler not invoked exactly once for a reported overlap");
            CHECK("C05", vh_h_code == rc, "handler code differs from returned code");
        } else
            CHECK("C05", vh_h_count == 0, "handler invoked although EOK returned");
#endif
    }
#endif

#if defined(PROP_C06) && !defined(LAYOUT_A)
    int mccpy_full = 0;
#if KIND == K_MCCPY
    {
        int found = 0;
        for (unsigned i = 0; i < NB; i++)
            if (i < nbytes && i < sobj && SPRE(i) == (unsigned char)value && (int)value >= 0 && (int)value < 256) found = 1;
        /* stop character absent from the first n bytes and n == dmax: the library has no room for the NUL it
           appends after a truncated copy and reports ESNOSPC; either outcome is accepted here */
        mccpy_full = !found && nbytes == dbytes;
    }
#endif
    if (!viol && !dnull && !(mccpy_full && rc != EOK)) {
        CHECK("C06", rc == EOK, "valid call failed");
#if KIND == K_MCPY || KIND == K_MMOVE
        for (unsigned i = 0; i < NB; i++) {
            if (i < nbytes) CHECK("C06", dest[i] == SPRE(i), "copied byte differs from source");
            else if (i < dobj) CHECK("C06", dest[i] == DPRE(i), "byte behind the copy changed");
        }
#elif KIND == K_MSET || KIND == K_MZERO
        for (unsigned i = 0; i < NB; i++) {
            if (i < nbytes) CHECK("C06", dest[i] == (unsigned char)(value >> (8 * (i % SU))), "fill value wrong");
            else if (i < dobj) CHECK("C06", dest[i] == DPRE(i), "byte behind the fill changed");
        }
#elif KIND == K_MCCPY
        if (slen > 0) {
            /* memccpy: copy up to and including the first (unsigned char)value among the first slen bytes */
            unsigned k = NB + 1;
            for (unsigned i = 0; i < NB; i++)
                if (i < nbytes && k > NB && SPRE(i) == (unsigned char)value && (int)value >= 0 && (int)value < 256) k = i;
            size_t ncopy = k <= NB ? k + 1 : nbytes;
            for (unsigned i = 0; i < NB; i++)
                if (i < ncopy) CHECK("C06", dest[i] == SPRE(i), "memccpy: copied byte differs from source (incl. stop character)");
        }
#endif
    }
    if (viol && KIND != K_MSET) CHECK("C06", rc != EOK, "result cannot fit / invalid but success returned");
#endif

#if defined(PROP_C07) && defined(LAYOUT_A)
    {
        size_t d0 = in.doff, s0 = in.soff;
        int base_ok = dmax > 0 && dbytes <= RMAXB && !slen_ovf && nbytes <= dbytes && slen > 0 &&
                      !(in.sbos_known && nbytes > srcbos) && (KIND != K_MSET);
#if KIND == K_MMOVE
        if (base_ok) {
            CHECK("C07", rc == EOK, "memmove: valid (possibly overlapping) move rejected");
            for (unsigned i = 0; i < NA; i++) {
                if (i >= d0 && i < d0 + nbytes) CHECK("C07", arena[i] == arena0[s0 + (i - d0)], "memmove: byte differs from copy through a temporary");
                else CHECK("C07", arena[i] == arena0[i], "memmove: byte outside the destination range changed");
            }
        }
#else
        int obj_disjoint = (d0 + dbytes <= s0) || (s0 + nbytes <= d0);
        int rw_intersect = !((d0 + nbytes <= s0) || (s0 + nbytes <= d0)) && d0 != s0;
        if (base_ok && obj_disjoint) {
            CHECK("C07", rc == EOK || KIND == K_MCCPY, "disjoint operands rejected");
            if (rc == EOK && KIND != K_MCCPY)
                for (unsigned i = 0; i < NA; i++)
                    if (i >= d0 && i < d0 + nbytes) CHECK("C07", arena[i] == arena0[s0 + (i - d0)], "wrong byte copied");
        }
        if (base_ok && rw_intersect) CHECK("C07", rc == ESOVRLP, "written and read bytes intersect but no ESOVRLP");
        if (rc == ESOVRLP) {
            CHECK("C07", !obj_disjoint, "ESOVRLP for disjoint operands");
            for (unsigned i = 0; i < NA; i++)
                if (i >= d0 && i < d0 + dbytes) CHECK("C07", arena[i] == 0, "ESOVRLP but dest not cleared");
        }
        if (rc == EOK && d0 != s0 && base_ok && KIND != K_MCCPY)
            for (unsigned i = 0; i < NA; i++)
                if (i >= d0 && i < d0 + nbytes) CHECK("C07", arena[i] == arena0[s0 + (i - d0)], "EOK: corrupted copy");
#endif
    }
#endif
    REACH("end");
#ifdef WITNESS
    if (rc == EOK) REACH("eok");
    if (rc != EOK) REACH("fail");
#endif
VH_MAIN_END
