"""C17: Unicode normalisation and case folding (harness/h_uni_*.c).  The oracle is generated on every run from Python's
unicodedata (UCD 14.0; the library tables are 15.0, so comparisons are restricted to code points assigned in 14 - sound
by normalisation stability)."""
import os, unicodedata
from engine.jobs import Job
from engine import core

SUP = ["src/str/safe_str_constraint.c", "src/mem/safe_mem_constraint.c", "src/ignore_handler_s.c", "src/str/strnlen_s.c", "src/wchar/wcsnlen_s.c",
       "src/wchar/wmemcpy_s.c", "src/mem/mem_primitives_lib.c"]
NORM = ["src/extwchar/wcsnorm_s.c"] + SUP
FOLD = ["src/extwchar/towfc_s.c", "src/extwchar/towctrans.c"] + SUP


def gen_ref():
    """ref_ucd.h: sorted table of (cp, nfd[0..3]) for every assigned cp with a canonical decomposition (non-Hangul), and
    (cp, ccc) for every cp with ccc != 0."""
    d = os.path.join(core.scratch(), "gen")
    os.makedirs(d, exist_ok=True)
    p = os.path.join(d, "ref_ucd.h")
    if os.path.exists(p):
        return d
    dec, ccc, unassigned = [], [], []
    start = None
    for cp in range(0x110000):
        if 0xD800 <= cp <= 0xDFFF:
            continue
        ch = chr(cp)
        if unicodedata.category(ch) == "Cn":
            if start is None:
                start = cp
            continue
        if start is not None:
            unassigned.append((start, cp - 1))
            start = None
        c = unicodedata.combining(ch)
        if c:
            ccc.append((cp, c))
        if 0xAC00 <= cp <= 0xD7A3:
            continue
        n = unicodedata.normalize("NFD", ch)
        if n != ch:
            v = [ord(x) for x in n]
            assert len(v) <= 4
            dec.append((cp, v + [0] * (4 - len(v)), len(v)))
    if start is not None:
        unassigned.append((start, 0x10FFFF))
    with open(p + ".tmp", "w") as f:
        f.write("/* generated from unicodedata %s */\n" % unicodedata.unidata_version)
        f.write("#define REF_NDEC %d\nstatic const unsigned ref_dec[REF_NDEC][6] = {\n" % len(dec))
        for cp, v, l in dec:
            f.write("{%d,%d,%d,%d,%d,%d},\n" % (cp, l, v[0], v[1], v[2], v[3]))
        f.write("};\n#define REF_NCCC %d\nstatic const unsigned ref_ccc[REF_NCCC][2] = {\n" % len(ccc))
        for cp, c in ccc:
            f.write("{%d,%d},\n" % (cp, c))
        f.write("};\n#define REF_NUNAS %d\nstatic const unsigned ref_unas[REF_NUNAS][2] = {\n" % len(unassigned))
        for a, b in unassigned:
            f.write("{%d,%d},\n" % (a, b))
        f.write("};\n")
    os.replace(p + ".tmp", p)
    return d


STRESS = [
    "a" + "̴̧̨̖̣̰́̀̈̄ͅ",   # 11 marks, reorder spills the 10-entry stack array
    "ṩ̣̇q̣́",                                             # s + dot below + dot above ...
    "Ǻ̧xyz각각",                               # composition + Hangul LVT
    "̈́क़ཱིΩÅ",                                              # composition exclusions, singletons
    "À̖́̂̃̄̅̆̇̈̉̊̋",  # 13 marks
]


def gen_stress():
    d = os.path.join(core.scratch(), "gen")
    os.makedirs(d, exist_ok=True)
    p = os.path.join(d, "ref_stress.h")
    if os.path.exists(p):
        return d

    def arr(s):
        return "{" + ",".join("0x%X" % ord(c) for c in s) + ",0}"
    with open(p + ".tmp", "w") as f:
        f.write("#define NSTRESS %d\n" % len(STRESS))
        for i, s in enumerate(STRESS):
            nfd, nfc = unicodedata.normalize("NFD", s), unicodedata.normalize("NFC", s)
            f.write("static const wchar_t st_src%d[] = %s;\nstatic const wchar_t st_nfd%d[] = %s;\nstatic const wchar_t st_nfc%d[] = %s;\n" % (i, arr(s), i, arr(nfd), i, arr(nfc)))
        f.write("static const wchar_t *const st_src[] = {%s};\n" % ",".join("st_src%d" % i for i in range(len(STRESS))))
        f.write("static const wchar_t *const st_nfd[] = {%s};\n" % ",".join("st_nfd%d" % i for i in range(len(STRESS))))
        f.write("static const wchar_t *const st_nfc[] = {%s};\n" % ",".join("st_nfc%d" % i for i in range(len(STRESS))))
    os.replace(p + ".tmp", p)
    return d


SHORT = ["\uAC01", "\uAC00\uAC01", "\u00E9", "e\u0301", "\u212B", "a\u0327\u0301", "a\u0301\u0327", "\u1E9B\u0323", "\u0958", "\u1100\u1161\u11A8",
         "\u00C5\u0323", "ab", "\u0344", "\u1E14", "U\u0304\u0308", "\u03B1\u0313\u0300", "q\u0323\u0323\u0323",
         # composition blocked by an intervening mark / starter (UAX #15 D115): L grave V, LV dot-below T, Bengali two-part vowel around a nukta, starter pair around ZWJ-less starter
         "\u1100\u0300\u1161", "\uAC00\u0323\u11A8", "\u09C7\u09BC\u09BE", "a\u0062\u0301", "\u0112\u0323\u0300", "e\u0323\u0304\u0301", "\u1100\u1161\u0300\u11A8"]


def gen_short():
    d = os.path.join(core.scratch(), "gen")
    os.makedirs(d, exist_ok=True)
    p = os.path.join(d, "ref_short.h")
    if os.path.exists(p):
        return d

    def arr(s):
        return "{" + ",".join("0x%X" % ord(c) for c in s) + ",0}"
    with open(p + ".tmp", "w") as f:
        nfds = [unicodedata.normalize("NFD", s) for s in SHORT]
        nfcs = [unicodedata.normalize("NFC", s) for s in SHORT]
        for i, s in enumerate(SHORT):
            f.write("static const wchar_t sh_src%d[] = %s;\nstatic const wchar_t sh_nfd%d[] = %s;\nstatic const wchar_t sh_nfc%d[] = %s;\n" % (i, arr(s), i, arr(nfds[i]), i, arr(nfcs[i])))
        for nm in ("src", "nfd", "nfc"):
            f.write("static const wchar_t *const sh_%s[] = {%s};\n" % (nm, ",".join("sh_%s%d" % (nm, i) for i in range(len(SHORT)))))
        f.write("static const unsigned sh_nfd_len[] = {%s};\nstatic const unsigned sh_nfc_len[] = {%s};\n" % (",".join(str(len(x)) for x in nfds), ",".join(str(len(x)) for x in nfcs)))
    os.replace(p + ".tmp", p)
    return d


def norm_string_jobs(prop, tier, only_fn=None):
    """wcsnorm_s on short concrete strings into a dest of exactly dmax characters (harness/h_wnorm.c)."""
    out = []
    if prop not in ("C01", "C03", "C04", "C05", "C08", "C17") or (only_fn and only_fn != "wcsnorm_s"):
        return out
    inc = gen_short()
    idxs = range(len(SHORT)) if tier != "quick" else [0, 1, 3, 5, 7, 10, 13, 14, 16, 17, 18, 19, 22]
    for i in idxs:
        nfd = len(unicodedata.normalize("NFD", SHORT[i]))
        dms = sorted({1, nfd - 1, nfd, nfd + 1, nfd + 2} - {0}) if tier == "quick" else range(1, nfd + 7)
        succ = nfd + 4  # the library needs 5 free elements per decomposed character: the smallest dmax that succeeds
        succ0 = len(SHORT[i]) + 4  # first size at which the decomposition stage can succeed
        if tier == "quick":
            dms = sorted(set(dms) | {succ0, succ})
        alld = sorted({1, nfd - 1, nfd, nfd + 1, nfd + 2} - {0}) if tier == "quick" else range(1, nfd + 7)
        for mode in (0, 1, 2, 3):  # 2: the decomposition stage alone (wcsnorm_decompose_s); 3: the composition stage alone (wcsnorm_compose_s)
            nfc = len(unicodedata.normalize("NFC", SHORT[i]))
            for d in ([x for x in dms if x < succ0] if mode == 1 else dms if mode == 0 else alld if mode == 2 else sorted({1, 2, nfc, nfc + 1, nfc + 2})):
                out.append(Job("wcsnorm_s.%s.short.s%d.m%d.d%d" % (prop, i, mode, d), prop, "h_wnorm.c", NORM,
                               defines=["-I" + inc, "-DCONCRETE_PRE", "-DBOSK=%d" % (d & 1)] + (["-DDECOMP_ONLY"] if mode == 2 else ["-DCOMPOSE_ONLY"] if mode == 3 else []) + [ "-DSIDX=%d" % i, "-DMODE=%d" % (1 if mode == 3 else mode % 2), "-DDOBJ=%d" % d, "-DVH_MEMSET_WORD"],
                               models=("libc_models.c", "wide_nd_models.c", "alloc_ok_models.c"), unwind_default=24,
                               unwind_rules=[(r"^(memcpy|memset|mem_prim)", 60)], memchecks=(prop == "C01"), fn="wcsnorm_s", object_bits=12, mem_gb=12,
                               bounds={"source": "concrete: " + " ".join("U+%04X" % ord(c) for c in SHORT[i]), "mode": ("NFD", "NFC", "decomposition stage only", "composition stage only")[mode],
                                       "dest object = dmax": d, "dest prefill": "symbolic"}, timeout=300))
    return out


def fold_string_jobs(prop, tier, only_fn=None):
    """wcsfc_s on 2-character strings over an alphabet with multi-character folds (harness/h_wfold.c): C01 C03 C04 C05 C08 (+C17 sanity)."""
    out = []
    if prop not in ("C01", "C03", "C04", "C05", "C08", "C17") or (only_fn and only_fn != "wcsfc_s"):
        return out
    files = ["src/extwchar/wcsfc_s.c", "src/extwchar/towfc_s.c", "src/extwchar/towctrans.c", "src/extwchar/wcsnorm_s.c"] + SUP
    dobjs = [1, 2, 3, 5] if tier == "quick" else [1, 2, 3, 4, 5, 6, 7, 8, 10]
    # source strings sliced concretely: first character x (nothing | second character)
    seconds = [8, 0] if tier == "quick" else [8, 0, 1, 2, 3, 4, 5, 6, 7]
    for a in range(8):
        for b in seconds:
            for d in dobjs:
                out.append(Job("wcsfc_s.%s.str.s%d_%d.d%d" % (prop, a, b, d), prop, "h_wfold.c", files,
                               defines=["-DDOBJ=%d" % d, "-DVH_MEMSET_WORD", "-DFIX_DMAX=%d" % d, "-DS0=%d" % a, "-DS1=%d" % b],
                               models=("libc_models.c", "wide_models.c"), unwind_default=12, unwind_rules=[(r"^memset\.", 14), (r"^memcpy\.", 40), (r"^_towfc_s_chk\.", 130), (r"^_towcase\.", 320), (r"^_towfc_single\.", 130)],
                               memchecks=(prop == "C01"), fn="wcsfc_s", object_bits=12,
                               bounds={"src": "concrete: ALPHA[%d]%s of {a A U+DF U+FB03 U+1F80 U+130 U+3A3 U+1E9E}" % (a, "" if b == 8 else " ALPHA[%d]" % b),
                                       "dest object = dmax": d, "dest prefill, object-size knowledge, lenp": "symbolic", "locale": "C (model)"}, timeout=300))
    out.append(Job("wcsfc_s.%s.str.guard" % prop, prop, "h_wfold.c", files, defines=["-DDOBJ=2", "-DVH_MEMSET_WORD", "-DS0=0", "-DS1=8"],
                   models=("libc_models.c", "wide_models.c"), unwind_default=12, unwind_rules=[(r"^memset\.", 14), (r"^memcpy\.", 40), (r"^_towfc_s_chk\.", 130), (r"^_towcase\.", 320), (r"^_towfc_single\.", 130)],
                   memchecks=(prop == "C01"), fn="wcsfc_s", object_bits=12,
                   bounds={"src": "\"a\"", "dmax": "symbolic (0, 1, 2, rejected sizes), dest NULL / src NULL"}, timeout=300))
    return out


def reorder_heap_jobs(prop, tier, only_fn=None):
    """canonical reordering of 'a' + 12/23 marks: the pending-mark array is moved to the heap and grown (harness/h_alloc.c SCEN 7)"""
    if prop != "C17" or (only_fn and only_fn != "wcsnorm_s"):
        return []
    from families import alloc
    out = []
    for n in ((12,) if tier == "quick" else (11, 12, 23)):
        out.append(Job("wcsnorm_s.C17.reorder.heap%d" % n, "C17", "h_alloc.c", alloc.FOLD, defines=["-DSCEN=7", "-DVH_MEMSET_WORD", "-DNMARKS=%d" % n, "-DNDMAX=%d" % (n + 4)],
                       repo_defines=alloc.WRAP, models=("libc_models.c", "wide_models.c"), unwind_default=n + 6,
                       unwind_rules=[(r"^memcpy\.", 16 * n + 20), (r"^memset\.", 30)], memchecks=True, fn="wcsnorm_s", object_bits=16, timeout=600, mem_gb=12,
                       bounds={"source": "'a' + %d x U+0301 (concrete)" % n, "allocation outcomes": "symbolic"}))
    return out


def jobs(prop, tier, only_fn=None):
    out = fold_string_jobs(prop, tier, only_fn) + norm_string_jobs(prop, tier, only_fn) + reorder_heap_jobs(prop, tier, only_fn)
    if prop != "C17":
        return out
    quick = tier == "quick"
    inc = gen_ref()
    gen_stress()
    idef = ["-I" + inc]
    if not only_fn or only_fn == "towfc_s":
        out.append(Job("towfc_s.C17.fold_lengths", "C17", "h_uni_fold.c", FOLD, defines=idef, models=("libc_models.c", "wide_nd_models.c"),
                       unwind_default=120, unwind_rules=[(r"^_towcase\.", 320)], memchecks=True, fn="towfc_s", object_bits=12, timeout=900, mem_gb=16,
                       bounds={"code point": "fully symbolic 32-bit value", "iswupper (libc)": "arbitrary"}))
    if not only_fn or only_fn == "wcsnorm_s":
        # leaf tables: one query per plane group (symbolic cp inside the range)
        ranges = [(0, 0x2FF), (0x300, 0x7FF), (0x800, 0x1DFF), (0x1E00, 0x1FFF), (0x2000, 0x2FFF), (0x3000, 0xFFFF), (0x10000, 0x1FFFF), (0x20000, 0x10FFFF)]
        for (a, b) in ranges:
            out.append(Job("wcsnorm_s.C17.decomp.%X_%X" % (a, b), "C17", "h_uni_decomp.c", SUP, defines=idef + ["-DCP_LO=%d" % a, "-DCP_HI=%d" % b],
                           models=("libc_models.c",), unwind_default=16, unwind_rules=[(r"^(memcpy|memset|memmove)", 26), (r"^(wcslen|wmemcpy|mem_prim)", 8), (r"^bsearch", 14)],
                           memchecks=True, fn="wcsnorm_s", object_bits=16, timeout=900 if quick else 3600, mem_gb=16,
                           bounds={"code point": "symbolic in U+%04X..U+%04X" % (a, b), "oracle": "unicodedata %s NFD of the single code point, combining class" % unicodedata.unidata_version}))
        for i in (range(len(STRESS)) if not quick else []):
            for mode in (0, 1):
                out.append(Job("wcsnorm_s.C17.stress%d.m%d" % (i, mode), "C17", "h_uni_stress.c", SUP, defines=idef + ["-DSIDX=%d" % i, "-DMODE=%d" % mode],
                               models=("libc_models.c", "alloc_ok_models.c"), unwind_default=140, unwind_rules=[(r"^(memcpy|memset|memmove)", 600)], fn="wcsnorm_s", object_bits=16, timeout=900, mem_gb=16,
                               bounds={"string": "concrete stress string #%d (%d code points: long mark runs, Hangul, exclusions)" % (i, len(STRESS[i])),
                                       "mode": ("NFD", "NFC", "decomposition stage only", "composition stage only")[mode], "dest prefill": "symbolic", "also": "normalising the result again gives the same"}))
    return out
