"""C19 result half (+C02 reads) for timingsafe_bcmp / timingsafe_memcmp (harness/h_tsafe.c)."""
from engine.jobs import Job

SUPPORT = ["src/mem/safe_mem_constraint.c", "src/ignore_handler_s.c"]
ROWS = [("timingsafe_bcmp", "src/extmem/timingsafe_bcmp.c", ["-DIS_BCMP"], "_timingsafe_bcmp_chk(p1,p2,n,in.bos1?n:BOS_UNKNOWN,in.bos2?n:BOS_UNKNOWN)"),
        ("timingsafe_memcmp", "src/extmem/timingsafe_memcmp.c", [], "_timingsafe_memcmp_chk(p1,p2,n,in.bos1?n:BOS_UNKNOWN,in.bos2?n:BOS_UNKNOWN)")]


def jobs(prop, tier, only_fn=None):
    out = []
    if prop not in ("C19", "C02"):
        return out
    ns = list(range(0, 5)) + [8] if tier == "quick" else list(range(0, 17)) + [24, 32]
    for name, f, d, call in ROWS:
        if only_fn and name != only_fn:
            continue
        for n in ns:
            out.append(Job("%s.%s.n%d" % (name, prop, n), prop, "h_tsafe.c", [f] + SUPPORT,
                           defines=d + ["-DCALL=%s" % call, "-DFIX_N=%d" % n, "-DNB=%d" % max(n, 1)], unwind_default=n + 2,
                           memchecks=True, fn=name, bounds={"n": n, "contents": "symbolic (both regions)", "objects": "exactly n bytes"},
                           timeout=300))
    return out
