"""Wide formatted output into dest through libc's vswprintf: swprintf_s vswprintf_s snwprintf_s vsnwprintf_s
(harness/h_wdest.c, models/wdest_models.c).  C01 (exact objects) C03 C04 C05 C06."""
from engine.jobs import Job

SUP = ["src/str/safe_str_constraint.c", "src/ignore_handler_s.c", "src/wchar/wcsnlen_s.c", "src/str/strnlen_s.c"]
ROWS = [("swprintf_s", "src/wchar/swprintf_s.c", 1), ("vswprintf_s", "src/wchar/vswprintf_s.c", 2),
        ("snwprintf_s", "src/wchar/snwprintf_s.c", 3), ("vsnwprintf_s", "src/wchar/vsnwprintf_s.c", 4)]
PROPS = ("C01", "C03", "C04", "C05", "C06")


def jobs(prop, tier, only_fn=None):
    out = []
    if prop not in PROPS:
        return out
    for name, f, wk in ROWS:
        if only_fn and name != only_fn:
            continue
        dobjs = [1, 2, 4] if tier == "quick" else [1, 2, 3, 4, 6]
        files = [f] + SUP + (["src/wchar/vsnwprintf_s.c"] if wk == 3 else [])
        for d in dobjs:
            # dmax sliced: concrete = the object, plus the symbolic rest (0, smaller, rejected sizes)
            for tag, extra in (("D", ["-DFIX_DMAX=%d" % d]), ("sym", [])):
                out.append(Job("%s.%s.o%d.%s" % (name, prop, d, tag), prop, "h_wdest.c", sorted(set(files)),
                               defines=["-DWK=%d" % wk, "-DDOBJ=%d" % d, "-DVH_MEMSET_WORD"] + extra,
                               models=("libc_models.c", "wdest_models.c", "alloc_ok_models.c"), native_models=("wdest_models.c",),
                               unwind_default=20, unwind_rules=[(r"^memset\.", 140), (r"^(strcat|strlen|strcpy)\.", 140)],
                               memchecks=(prop == "C01"), fn=name,
                               bounds={"dest object": d, "dmax": "concrete" if extra else "symbolic (truthful)", "libc text": "<= 7 symbolic wide characters, or failure",
                                       "format": "concrete, no directives (the text is the model's)"}, timeout=300))
    return out
