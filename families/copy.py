"""String copy / concatenate family (harness/h_copy.c)."""
from engine.jobs import Job

STR_SUPPORT = ["src/str/safe_str_constraint.c", "src/str/strnlen_s.c", "src/ignore_handler_s.c"]
WSTR_SUPPORT = STR_SUPPORT + ["src/wchar/wcsnlen_s.c"]

ROWS = [
    # name, file, T, kind, rmax, call
    ("strcpy_s", "src/str/strcpy_s.c", "char", "K_CPY", "RSIZE_MAX_STR", "_strcpy_s_chk(dest,dmax,src,destbos)"),
    ("strncpy_s", "src/str/strncpy_s.c", "char", "K_NCPY", "RSIZE_MAX_STR", "_strncpy_s_chk(dest,dmax,src,slen,destbos,srcbos)"),
    ("strcat_s", "src/str/strcat_s.c", "char", "K_CAT", "RSIZE_MAX_STR", "_strcat_s_chk(dest,dmax,src,destbos)"),
    ("strncat_s", "src/str/strncat_s.c", "char", "K_NCAT", "RSIZE_MAX_STR", "_strncat_s_chk(dest,dmax,src,slen,destbos,srcbos)"),
    ("stpcpy_s", "src/extstr/stpcpy_s.c", "char", "K_STPCPY", "RSIZE_MAX_STR",
     "vh_stp(_stpcpy_s_chk(dest,dmax,src,errnull?0:&vh_err,destbos,srcbos),errnull)"),
    ("stpncpy_s", "src/extstr/stpncpy_s.c", "char", "K_STPNCPY", "RSIZE_MAX_STR",
     "vh_stp(_stpncpy_s_chk(dest,dmax,src,slen,errnull?0:&vh_err,destbos,srcbos),errnull)"),
    ("wcscpy_s", "src/wchar/wcscpy_s.c", "wchar_t", "K_CPY", "RSIZE_MAX_WSTR", "_wcscpy_s_chk(dest,dmax,src,destbos)"),
    ("wcsncpy_s", "src/wchar/wcsncpy_s.c", "wchar_t", "K_NCPY", "RSIZE_MAX_WSTR", "_wcsncpy_s_chk(dest,dmax,src,slen,destbos,srcbos)"),
    ("wcscat_s", "src/wchar/wcscat_s.c", "wchar_t", "K_CAT", "RSIZE_MAX_WSTR", "_wcscat_s_chk(dest,dmax,src,destbos)"),
    ("wcsncat_s", "src/wchar/wcsncat_s.c", "wchar_t", "K_NCAT", "RSIZE_MAX_WSTR", "_wcsncat_s_chk(dest,dmax,src,slen,destbos,srcbos)"),
]

PROPS = ("C01", "C02", "C03", "C04", "C05", "C06", "C07", "C08")


def _base(name, f, T, kind, rmax, call, N):
    if T != "char":
        return ["-DVH_MEMSET_WORD", "-DT=%s" % T, "-DNMAX=%d" % N, "-DKIND=%s" % kind, "-DRMAX=%s" % rmax, "-DCALL=%s" % call]
    return ["-DT=%s" % T, "-DNMAX=%d" % N, "-DKIND=%s" % kind, "-DRMAX=%s" % rmax, "-DCALL=%s" % call]


def jobs(prop, tier, only_fn=None):
    out = []
    if prop not in PROPS:
        return out
    for (name, f, T, kind, rmax, call) in ROWS:
        if only_fn and name != only_fn:
            continue
        wide = T != "char"
        files = [f] + (WSTR_SUPPORT if wide else STR_SUPPORT)
        variants = ["slack"]
        if prop in ("C01", "C03", "C04", "C08"):
            variants.append("noslack")
        for variant in variants:
            if prop == "C02":
                # exact objects, geometry sliced (DESIGN 2.1 S): dobj x sobj x allocation order
                N = 4 if tier == "quick" else 6
                if wide:
                    N = 3 if tier == "quick" else 4
                geos = [(d, s) for d in range(0, N + 1) for s in range(0, N + 1)]
                if tier == "quick":
                    geos = [(d, s) for (d, s) in geos if d in (0, 1, N) or s in (0, 1, N) or d == s]
                for (d, s) in geos:
                    for order in (0, 1):
                        defs = _base(name, f, T, kind, rmax, call, N) + ["-DEXACT", "-DFIX_DOBJ=%d" % d, "-DFIX_SOBJ=%d" % s,
                                                                          "-DFIX_ORDER=%d" % order]
                        out.append(Job("%s.%s.%s.G.d%d.s%d.o%d" % (name, prop, variant, d, s, order), prop, "h_copy.c", files,
                                       defines=defs, variant=variant, unwind_default=N + 3, memchecks=True, fn=name,
                                       bounds={"layout": "G-exact", "dobj": d, "sobj": s, "order": order, "NMAX": N,
                                               "dmax": "symbolic", "slen": "symbolic", "contents": "symbolic"},
                                       timeout=120 if tier == "quick" else 600))
            elif prop == "C07":
                N = 3 if tier == "quick" else 4
                if wide:
                    N = 2 if tier == "quick" else 3
                defs = _base(name, f, T, kind, rmax, call, N) + ["-DLAYOUT_A"]
                out.append(Job("%s.%s.%s.A" % (name, prop, variant), prop, "h_copy.c", files, defines=defs, variant=variant,
                               unwind_default=2 * N + 3, fn=name,
                               bounds={"layout": "A", "arena": 2 * N, "all": "symbolic"},
                               timeout=300 if tier == "quick" else 1800))
            else:
                N = 5 if tier == "quick" else 8
                if wide:
                    N = 4 if tier == "quick" else 6
                W = 4 if wide else 1
                # dmax sliced concretely (symbolic dmax costs 10-100x, DESIGN 2.1): body jobs dmax=1..N,
                # plus one guard-section job with dmax symbolic over {0} u (dobj, 2^64)
                slices = [("d%d" % k, ["-DFIX_DMAX=%d" % k], {"dmax": k}) for k in range(1, N + 1)]
                slices.append(("guard", ["-DGUARD_ONLY"], {"dmax": "symbolic in {0} u (dobj,2^64), or NULL operands"}))
                # across the 0x20 byte-loop/memset switch of the slack clearing (C08) and of handle_error
                bigs = [40] if tier == "quick" else [36, 40, 48]
                if prop in ("C01", "C03", "C04", "C06", "C08"):
                    for k in bigs:
                        if kind in ("K_CAT", "K_NCAT"):
                            for dl in (0, 1):
                                slices.append(("D%d.l%d" % (k, dl), ["-DFIX_DMAX=%d" % k, "-DNMAX=%d" % (k + 1), "-DSHORT_OPS=2",
                                                                    "-DFIX_DL=%d" % dl],
                                               {"dmax": k, "NMAX": k + 1, "operands": "src length <= 2, old dest = %d concrete chars" % dl,
                                                "lib_unwind": 5}))
                        else:
                            slices.append(("D%d" % k, ["-DFIX_DMAX=%d" % k, "-DNMAX=%d" % (k + 1), "-DSHORT_OPS=2"],
                                           {"dmax": k, "NMAX": k + 1, "operands": "src length <= 2", "lib_unwind": 5}))
                slices = [(t + ".o%d" % o, e + ["-DFIX_ORDER=%d" % o], dict(b, order=o)) for (t, e, b) in slices for o in (0, 1)]
                for tag, extra, b in slices:
                    NN = b.get("NMAX", N)
                    defs = _base(name, f, T, kind, rmax, call, NN) + [e for e in extra if not e.startswith("-DNMAX=")]
                    bounds = {"layout": "G-fixed", "NMAX": NN, "other": "symbolic"}
                    bounds.update(b)
                    out.append(Job("%s.%s.%s.F.%s" % (name, prop, variant, tag), prop, "h_copy.c", files, defines=defs,
                                   variant=variant,
                                   unwind_default=b.get("lib_unwind") or ((b["dmax"] if isinstance(b["dmax"], int) else N) + 2),
                                   unwind_rules=[(r"^mem(set|cpy)\.", (NN if wide else NN * W) + 2),
                                                 (r"^_(str|wcs)nlen_s_chk\.", NN + 2)],
                                   memchecks=(tag.startswith("guard")), fn=name, bounds=bounds,
                                   timeout=120 if tier == "quick" else 900))
                if prop in ("C04", "C05"):
                    # overlapping operands (one arena): the overlap failure clears dest (C04) and is reported once (C05)
                    NA_ = 3 if tier == "quick" else 4
                    if wide:
                        NA_ = 2 if tier == "quick" else 3
                    defs = _base(name, f, T, kind, rmax, call, NA_) + ["-DLAYOUT_A"]
                    out.append(Job("%s.%s.%s.A" % (name, prop, variant), prop, "h_copy.c", files, defines=defs, variant=variant,
                                   unwind_default=2 * NA_ + 3, fn=name,
                                   bounds={"layout": "A", "arena": 2 * NA_, "all": "symbolic"},
                                   timeout=300 if tier == "quick" else 1800))
    return out
