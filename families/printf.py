"""Formatted output (own engine src/str/vsnprintf_s.c): C09, C11 and the C01/C03/C04/C05/C08/C12/C20 clauses for the
sprintf_s family.  One generated harness per concrete directive skeleton (DESIGN C09/C11: the conversion character must be
concrete, everything else - arguments, '*' widths, dest prefill, %s contents - is symbolic)."""
import hashlib, os, re
from engine.jobs import Job
from engine import core

ENGINE = ["src/str/vsnprintf_s.c", "src/str/snprintf_s.c", "src/str/sprintf_s.c", "src/str/vsprintf_s.c",
          "src/str/safe_str_constraint.c", "src/str/strnlen_s.c", "src/ignore_handler_s.c",
          "src/wchar/wcsnlen_s.c", "src/wchar/wcstombs_s.c"]
STREAM = ["src/io/printf_s.c", "src/io/fprintf_s.c", "src/io/vfprintf_s.c", "src/io/vprintf_s.c"]
MODELS = ("libc_models.c", "printf_models.c", "conv_models.c")

DIR_RE = re.compile(r"%([-+ #0]*)(\*|\d+)?(?:(\.)(\*|\d+)?)?(hh|h|ll|l|j|z|t|L)?([diuxXocsnfF%])")
SL = 4  # max characters of a %s argument

INT_T = {None: ("int", "unsigned int"), "hh": ("int", "unsigned int"), "h": ("int", "unsigned int"), "l": ("long", "unsigned long"),
         "ll": ("long long", "unsigned long long"), "j": ("intmax_t", "uintmax_t"), "z": ("ssize_t", "size_t"), "t": ("ptrdiff_t", "size_t")}


def cstr(s):
    return '"' + s.replace("\\", "\\\\").replace('"', '\\"') + '"'


def gen(fmt, entry, stream=False):
    """Returns (source_text, has_n). entry: name of the C entry expression prefix."""
    inputs = ["S(size_t, dmax) S(unsigned char, bos_known)", "A(unsigned char, dfull, DCAP + 2 * VH_RZ) A(unsigned char, dpre, DCAP)"]
    setup, args, ref, intact, sent = [], [], [], [], []
    pos, k, has_n = 0, 0, False
    for m in DIR_RE.finditer(fmt):
        lit = fmt[pos:m.start()]
        for ch in lit:
            ref.append("rp_put(out, n, %d);" % ord(ch))
        pos = m.end()
        flags, width, dot, prec, length, conv = m.groups()
        if conv == "%" and not (flags or width or dot or length):
            ref.append("rp_put(out, n, '%');")
            continue
        fl = 0
        for c, b in (("-", 1), ("+", 2), (" ", 4), ("#", 8), ("0", 16)):
            if c in (flags or ""):
                fl |= b
        wexpr, pexpr, flx = "0", "-1", "%du" % fl
        if width == "*":
            inputs.append("S(int, w%d)" % k)
            setup.append("ASSUME(in.w%d >= -WMAX && in.w%d <= WMAX);" % (k, k))
            args.append("(int)in.w%d" % k)
            wexpr = "(in.w%d < 0 ? -in.w%d : in.w%d)" % (k, k, k)
            flx = "(%du | (in.w%d < 0 ? RF_LEFT : 0))" % (fl, k)
        elif width:
            wexpr = str(int(width))
        if dot:
            if prec == "*":
                inputs.append("S(int, p%d)" % k)
                setup.append("ASSUME(in.p%d >= -2 && in.p%d <= WMAX);" % (k, k))
                args.append("(int)in.p%d" % k)
                pexpr = "(in.p%d < 0 ? -1 : in.p%d)" % (k, k)
            else:
                pexpr = str(int(prec)) if prec else "0"
        if conv in "di":
            st, ut = INT_T[length]
            inputs.append("S(long long, a%d)" % k)
            args.append("(%s)in.a%d" % (st, k))
            # decimal digits of a free 32/64-bit value are out of SAT reach (>200 s on every back end, DESIGN C11):
            # |v| < DECRANGE, or one of the extreme values of the argument type
            setup.append("\n#if ARGSEL == 0\n ASSUME(in.a%d > -DECRANGE && in.a%d < DECRANGE);\n#elif ARGSEL == 1\n in.a%d = VH_MIN(%s);\n"
                         "#elif ARGSEL == 2\n in.a%d = VH_MAX(%s);\n#else\n in.a%d = -1;\n#endif\n" % (k, k, k, st, k, st, k))
            conv_t = {"hh": "signed char", "h": "short"}.get(length, st)
            ref.append("{ long long v = (long long)(%s)(%s)in.a%d; ref_int(out, n, %s, %s, %s, '%s', v < 0 ? 0ULL - (unsigned long long)v : (unsigned long long)v, v < 0); }"
                       % (conv_t, st, k, flx, wexpr, pexpr, conv))
        elif conv in "uxXo":
            st, ut = INT_T[length]
            inputs.append("S(unsigned long long, a%d)" % k)
            args.append("(%s)in.a%d" % (ut, k))
            if conv == "u":
                setup.append("\n#if ARGSEL == 0\n ASSUME(in.a%d < DECRANGE);\n#elif ARGSEL == 1\n in.a%d = 0;\n"
                             "#elif ARGSEL == 2\n in.a%d = (unsigned long long)VH_MAX(%s);\n#else\n in.a%d = ~0ULL;\n#endif\n" % (k, k, k, st, k))
            conv_t = {"hh": "unsigned char", "h": "unsigned short"}.get(length, ut)
            ref.append("ref_int(out, n, %s, %s, %s, '%s', (unsigned long long)(%s)(%s)in.a%d, 0);" % (flx, wexpr, pexpr, conv, conv_t, ut, k))
        elif conv == "c" and length == "l":
            # %lc: one wide character from a 4-symbol alphabet (1-4 byte UTF-8; locale model C.UTF-8), reference = its encoding
            inputs.append("S(unsigned char, a%d)" % k)
            args.append("(wint_t)VH_WCA[in.a%d & 3]" % k)
            ref.append("{ unsigned cp = VH_WCA[in.a%d & 3]; if (cp < 0x80) rp_put(out, n, (char)cp); else if (cp < 0x800) { rp_put(out, n, (char)(0xC0 | (cp >> 6))); "
                       "rp_put(out, n, (char)(0x80 | (cp & 0x3F))); } else if (cp < 0x10000) { rp_put(out, n, (char)(0xE0 | (cp >> 12))); "
                       "rp_put(out, n, (char)(0x80 | ((cp >> 6) & 0x3F))); rp_put(out, n, (char)(0x80 | (cp & 0x3F))); } else { rp_put(out, n, (char)(0xF0 | (cp >> 18))); "
                       "rp_put(out, n, (char)(0x80 | ((cp >> 12) & 0x3F))); rp_put(out, n, (char)(0x80 | ((cp >> 6) & 0x3F))); rp_put(out, n, (char)(0x80 | (cp & 0x3F))); } }" % k)
        elif conv == "s" and length == "l" and not (width or dot):
            # %ls: wide string of <= 2 characters from the same alphabet, exact object; reference = its UTF-8 encoding
            inputs.append("A(unsigned char, ws%d, 2) S(unsigned char, wl%d)" % (k, k))
            setup.append("in.wl%d = 2; in.ws%d[0] = ARGSEL; in.ws%d[1] = (ARGSEL + 1 + (ARGSEL >> 1)); /* concrete string per job: a symbolic length makes malloc(l + 1) a symbolic-size object */ W%d = (wchar_t *)vh_alloc((in.wl%d + 1) * sizeof(wchar_t)); "
                         "for (unsigned i = 0; i < 2; i++) if (i < in.wl%d) W%d[i] = (wchar_t)VH_WCA[in.ws%d[i] & 3]; W%d[in.wl%d] = 0;" % (k, k, k, k, k, k, k, k, k, k))
            args.append("W%d" % k)
            sent.append("static wchar_t *W%d;" % k)
            ref.append("for (unsigned q = 0; q < 2; q++) if (q < in.wl%d) { unsigned cp = VH_WCA[in.ws%d[q] & 3]; if (cp < 0x80) rp_put(out, n, (char)cp); else if (cp < 0x800) { "
                       "rp_put(out, n, (char)(0xC0 | (cp >> 6))); rp_put(out, n, (char)(0x80 | (cp & 0x3F))); } else if (cp < 0x10000) { rp_put(out, n, (char)(0xE0 | (cp >> 12))); "
                       "rp_put(out, n, (char)(0x80 | ((cp >> 6) & 0x3F))); rp_put(out, n, (char)(0x80 | (cp & 0x3F))); } else { rp_put(out, n, (char)(0xF0 | (cp >> 18))); "
                       "rp_put(out, n, (char)(0x80 | ((cp >> 12) & 0x3F))); rp_put(out, n, (char)(0x80 | ((cp >> 6) & 0x3F))); rp_put(out, n, (char)(0x80 | (cp & 0x3F))); } }" % (k, k))
        elif conv == "c" and length is None:
            inputs.append("S(int, a%d)" % k)
            args.append("(int)in.a%d" % k)
            ref.append("ref_char(out, n, %s, %s, (char)in.a%d);" % (flx, wexpr, k))
        elif conv == "s" and length is None:
            # exact object of sobj bytes; terminated inside, or (with a precision) at least precision readable bytes
            inputs.append("A(char, s%d, %d) S(unsigned char, sobj%d) S(unsigned char, snull%d)" % (k, SL + 1, k, k))
            setup.append("ASSUME(in.sobj%d <= %d); S%d = in.snull%d ? (char *)0 : (char *)vh_alloc(in.sobj%d);" % (k, SL + 1, k, k, k))
            setup.append("if (S%d) for (unsigned i = 0; i < %d; i++) if (i < in.sobj%d) S%d[i] = in.s%d[i];" % (k, SL + 1, k, k, k))
            setup.append("{ int t = 0; for (unsigned i = 0; i < %d; i++) if (i < in.sobj%d && in.s%d[i] == 0) t = 1; "
                         "ASSUME(in.snull%d || t || (%s >= 0 && (unsigned)(%s) <= in.sobj%d)); }" % (SL + 1, k, k, k, pexpr, pexpr, k))
            args.append("S%d" % k)
            sent.append("static char *S%d;" % k)
            ref.append("if (in.snull%d) viol = 1; else ref_str(out, n, %s, %s, %s, in.s%d, in.sobj%d);" % (k, flx, wexpr, pexpr, k, k))
            intact.append("(!S%d || vh_same(S%d, in.s%d, in.sobj%d))" % (k, k, k, k))
        elif conv in "fF" and length is None:
            # double argument given by its bit pattern; ARGSEL 0: |v| < FRANGE (all doubles incl. denormals and -0.0), 1: +inf, 2: -inf, 3: NaN, 4: FRANGE <= |v| < 1e9
            inputs.append("S(unsigned long long, a%d)" % k)
            sent.append("static double D%d;" % k)
            setup.append("{ union { unsigned long long u; double d; } cv; cv.u = in.a%d; D%d = cv.d; }\n#if ARGSEL == 0\n ASSUME(D%d > -FRANGE && D%d < FRANGE);\n"
                         "#elif ARGSEL == 1\n D%d = 1.0 / 0.0;\n#elif ARGSEL == 2\n D%d = -1.0 / 0.0;\n#elif ARGSEL == 3\n D%d = 0.0 / 0.0; if (D%d < 0 || 1) { union { unsigned long long u; double d; } q; q.u = 0x7ff8000000000000ULL; D%d = q.d; }\n"
                         "#else\n ASSUME((D%d >= FRANGE && D%d < 999999999.0) || (D%d <= -FRANGE && D%d > -999999999.0));\n#endif\n" % ((k,) * 13))
            args.append("D%d" % k)
            sent.append("#define FLOAT_SKEL 1\nstatic int float_ok(const char *t, unsigned n) { return ref_float_ok(t, n, %s, %s, %s, D%d, %d); }\n"
                        "static unsigned float_maxlen(void) { return ref_float_maxlen(%s, %s, %s, D%d); }" % (flx, wexpr, pexpr, k, 1 if conv == "F" else 0, flx, wexpr, pexpr, k))
            if fmt != m.group(0):
                raise ValueError("float skeletons are single directives: %r" % fmt)
        elif conv == "n":
            has_n = True
            ty = {None: "int", "hh": "signed char", "h": "short", "l": "long", "ll": "long long", "j": "intmax_t", "z": "ssize_t",
                  "t": "ptrdiff_t", "L": "int"}[length]
            sent.append("static %s N%d = 0x5a;" % (ty, k))
            args.append("&N%d" % k)
            intact.append("(N%d == 0x5a)" % k)
            ref.append("viol = 1;")
        else:
            raise ValueError("unsupported directive in skeleton %r" % fmt)
        k += 1
    for ch in fmt[pos:]:
        ref.append("rp_put(out, n, %d);" % ord(ch))
    argl = "".join(", " + a for a in args)
    if stream:
        call = "return %s(%s%s);" % (entry, "FMT", argl)
    else:
        call = "return %s(dest, dmax, destbos, FMT%s);" % (entry, argl)
    intact_n = " && ".join(x for x in intact if x.startswith("(N")) or "1"
    intact_s = " && ".join(x for x in intact if not x.startswith("(N")) or "1"
    src = """/* generated by families/printf.py for the skeleton %s */
#include "safeclib_private.h"
#include "safe_lib.h"
#include <stdarg.h>
#include <stdint.h>
#include <sys/types.h>
#define FMT %s
#define DCAP 32
#define RP_CAP 40
#ifndef WMAX
#define WMAX 7
#endif
#ifndef DECRANGE
#define DECRANGE 1000
#endif
#ifndef ARGSEL
#define ARGSEL 0
#endif
#ifndef FRANGE
#define FRANGE 1000.0
#endif
#define VH_MAX(t) ((t)((((unsigned long long)1 << (sizeof(t) * 8 - 1)) - 1)))
#define VH_MIN(t) ((t)(-(long long)VH_MAX(t) - 1))
%s
#define VH_INPUTS(S, A) %s
#include "vh.h"
#include "ref_printf.h"
%s
#if VH_CBMC
static FILE vh_file; /* a concrete, non-null stream object; fputc/putchar are models that capture the text */
#define VH_STREAM (&vh_file)
#else
#define VH_STREAM stdout
#endif
static int vh_same(const char *p, const char *q, unsigned n) { for (unsigned i = 0; i < %d; i++) if (i < n && p[i] != q[i]) return 0; return 1; }
static int vwrap_vsnprintf(char *dest, size_t dmax, size_t bos, const char *fmt, ...) { va_list ap; va_start(ap, fmt); int r = _vsnprintf_s_chk(dest, dmax, bos, fmt, ap); va_end(ap); return r; }
static int vwrap_vsprintf(char *dest, size_t dmax, size_t bos, const char *fmt, ...) { va_list ap; va_start(ap, fmt); int r = _vsprintf_s_chk(dest, dmax, bos, fmt, ap); va_end(ap); return r; }
static int vwrap_vfprintf(const char *fmt, ...) { va_list ap; va_start(ap, fmt); int r = vfprintf_s(VH_STREAM, fmt, ap); va_end(ap); return r; }
static int vwrap_vprintf(const char *fmt, ...) { va_list ap; va_start(ap, fmt); int r = vprintf_s(fmt, ap); va_end(ap); return r; }
#define fprintf_stdout(...) fprintf_s(VH_STREAM, __VA_ARGS__)
static void setup_args(void) { %s }
static int call_fn(char *dest, size_t dmax, size_t destbos) { (void)dest; (void)dmax; (void)destbos; %s }
static int reference(char *out, unsigned *n) { int viol = 0; %s return viol; }
static int sentinels_intact(void) { return %s; }
static int args_intact(void) { return %s; }
int vh_alloc_failed;
#include "h_printf_body.h"
""" % (fmt.replace("*/", "* /"), cstr(fmt), "#define HAS_PCT_N 1" if has_n else "", " ".join(inputs), "\n".join(sent), SL + 1,
       " ".join(setup), call, " ".join(ref), intact_n, intact_s)
    return src, has_n


def harness_file(fmt, entry, stream=False):
    src, has_n = gen(fmt, entry, stream)
    h = hashlib.sha1((fmt + "|" + entry).encode()).hexdigest()[:10]
    d = os.path.join(core.scratch(), "gen")
    os.makedirs(d, exist_ok=True)
    p = os.path.join(d, "hp_%s.c" % h)
    if not os.path.exists(p):
        tmp = p + ".tmp%d" % os.getpid()
        open(tmp, "w").write(src)
        os.replace(tmp, p)
    return p, has_n, h


CORE = ["%d", "%i", "%u", "%x", "%X", "%o", "%c", "%s", "a%%b", "%5d", "%-5d", "%05d", "%+d", "% d", "%.3d", "%5.3d", "%#x", "%#o",
        "%ld", "%lld", "%hd", "%hhd", "%hhu", "%hu", "%lu", "%llx", "%zu", "%jd", "%td", "%*d", "%.*d", "%.0d", "%s|%d", "ab%dcd",
        "%5s", "%-5s", "%.2s", "%5.2s", "%c%c", "%x %o", "%08X", "%+5d", "%#5x", "%-+5d", "% 05d", "%#.3x", "%#06x", "%3c", "%-3c", "%lc", "ab%lc|",
        "%-5.3d", "%-+6.3d", "%-6.3x", "%#.3o", "%#5.3o", "%#.0o", "%#o", "%5.0s", "%-4.0s", "%3.s", "%+5d", "%5d|%-4d", "[%ls]", "%-06d", "%-+07d"]
MORE = ["%.*s", "%*s", "%%%d", "%d%%", "%+.3d", "%-#6o", "%#X", "%lli", "%hi", "%hhi", "%hx", "%hhx", "%lo", "%llo", "%zx", "%jx", "%ju", "%tx",
        "%0*d", "%-*.*d", "%+*d", "%.1s", "%.0s", "%10.4s", "%-6.1s", "%s%s", "%d %s %c", "%#.0o", "%#.0x", "%+.0d", "%ho",
        "x%5cy", "%- 5d", "%+ d", "%00d", "%--5d", "%.10d", "%20d", "%-20d|", "%020d", "%llu", "%lx", "%lX", "%#lx", "%#llo", "%- 08ld", "%-0*i", "%-05x", "%-05u", "%-#06x", "%-06c", "%-06s"]
FLOATS_Q = ["%.1f", "%.0f", "%.2f", "%6.1f", "%+.1f"]
FLOATS_T = FLOATS_Q + ["%f", "%.3f", "%-6.1f", "%06.1f", "% .1f", "%F", "%#.0f", "%.1F", "%8.2f", "%-+7.2f"]
N_FMTS = ["%n", "a%n", "%%%n", "%d%n", "%ln", "%hhn", "%hn", "%lln", "%jn", "%zn", "%tn", "%5n", "%-n", "%.3n", "%*n", "%%n%n",
          "%s%n", "ab%%%%%n", "%0n", "%#n", "% n", "%+n", "%.*n", "%c%n"]
ENTRIES = [("snprintf_s", "_snprintf_s_chk", False), ("sprintf_s", "_sprintf_s_chk", False), ("vsnprintf_s", "vwrap_vsnprintf", False),
           ("vsprintf_s", "vwrap_vsprintf", False)]
STREAM_ENTRIES = [("printf_s", "printf_s", True), ("fprintf_s", "fprintf_stdout", True), ("vfprintf_s", "vwrap_vfprintf", True),
                  ("vprintf_s", "vwrap_vprintf", True)]

PROPS = ("C01", "C02", "C03", "C04", "C05", "C08", "C09", "C11", "C12", "C20")


def jobs(prop, tier, only_fn=None):
    out = []
    if prop not in PROPS:
        return out
    quick = tier == "quick"
    fmts = CORE if quick else CORE + MORE
    dmaxes = [24, 4] if quick else [24, 1, 2, 3, 4, 6, 9, 13]
    if prop == "C09":
        plan = [(f, e) for f in N_FMTS for e in (ENTRIES + STREAM_ENTRIES)[:(3 if quick else 8)]]
        plan += [(f, ENTRIES[0]) for f in (CORE[:12] if quick else CORE)]
        if quick:  # the stream entries run the same engine: a few %n spellings each
            plan += [(f, e) for f in ("%n", "%ln", "%%%n", "%5n", "%-n", "%d%n") for e in STREAM_ENTRIES]
        dmaxes = [24]
    elif prop == "C11":
        plan = [(f, ENTRIES[i % 2 if quick else i % 4]) for i, f in enumerate(fmts)]
        if not quick:
            plan += [(f, e) for f in CORE[:16] for e in ENTRIES[1:]]
        fl = FLOATS_Q if quick else FLOATS_T
        plan += [(f, ENTRIES[i % 2 if quick else i % 4]) for i, f in enumerate(fl)] + [(f, STREAM_ENTRIES[1]) for f in fl[:1 if quick else 4]]
        plan += [(f, e) for f in (CORE[:8] + ["ab%lc|"] if quick else CORE[:24] + ["%lc", "ab%lc|"]) for e in (STREAM_ENTRIES[:2] if quick else STREAM_ENTRIES)]
    elif prop in ("C01", "C02"):
        plan = [(f, ENTRIES[0]) for f in (["%d", "%s", "%.2s", "%5s", "%c", "%x", "%*d", "%s|%d", "ab%lc|"] if quick else fmts)]
        dmaxes = [4, 12] if quick else [1, 2, 3, 4, 6, 9, 13, 24]
    elif prop == "C12":
        plan = [(f, ENTRIES[0]) for f in (["%d", "%lld", "%llx", "%s", "%5.3d", "%lu"] if quick else CORE)]
        plan += [(f, STREAM_ENTRIES[1]) for f in ["%lld", "%d"]]
        dmaxes = [24]
    elif prop == "C20":
        return out  # allocating directives (%ls, %Lf, ...): see families/alloc.py
    else:
        sel = ["%d", "%s", "%5d", "%x", "%c", "%s|%d", "%.2s", "%lld", "%*d", "%n", "a%n", "%05d", "ab%lc|"] if quick else fmts + N_FMTS[:6]
        plan = [(f, ENTRIES[i % 4]) for i, f in enumerate(sel)]
        if quick:
            plan += [("%d", e) for e in ENTRIES[1:]] + [("%s", ENTRIES[3])]
    variants = ["slack"] + (["noslack"] if prop in ("C03", "C04") and not quick else [])
    for (fmt, (ename, entry, stream)) in plan:
        if only_fn and ename != only_fn:
            continue
        if ename == "vprintf_s" and prop != "C09":
            continue  # vprintf_s hands the format to libc's vprintf: its text is libc's, not the engine's (only the %n rejection is its own)
        if stream and prop not in ("C09", "C11", "C12"):
            continue
        path, has_n, h = harness_file(fmt, entry, stream)
        files = ENGINE + (STREAM if stream else [])
        decimal = bool(re.search(r"%[-+ #0]*(\*|\d+)?(\.(\*|\d+)?)?(hh|h|ll|l|j|z|t)?[diu]", fmt))
        sels = [0, 1, 2, 3] if ((decimal or "%ls" in fmt) and prop == "C11") else [0]
        isfloat = fmt in FLOATS_T
        if isfloat:
            sels = [0] + ([1, 2, 3] if fmt in ("%.1f", "%f", "%F", "%6.1f") else []) + ([] if quick else [4])
        if os.environ.get("VERIF_FMT") and fmt != os.environ["VERIF_FMT"]:
            continue
        for variant in variants:
          for sel in sels:
            for dm in (dmaxes if sel == 0 else dmaxes[:1]):
                defs = ["-DFIX_DMAX=%d" % dm, "-DARGSEL=%d" % sel] + (["-DTO_STREAM"] if stream else [])
                if "*" in fmt and "s" in fmt:
                    defs.append("-DWMAX=3")
                mem = prop in ("C01", "C02")
                if prop == "C02":
                    defs.append("-DEXACT")
                out.append(Job("%s.%s.%s.%s.d%d.a%d" % (ename, prop, h, variant, dm, sel), prop, path, files, defines=defs, variant=variant,
                               models=MODELS, native_models=("printf_models.c",) if stream else (), unwind_default=36, unwind_rules=[(r"^safec_ntoa_long(_long)?\.0$", 6 if (decimal and sel == 0) else 34),(r"^(ref_|vh_same)", 72), (r"^safec_strnlen_s", 12), (r"^(memset|memcpy|strstr)\.", 36), (r"^safec_atoi", 4)],
                               memchecks=mem, fn=ename, timeout=240 if quick else 900,
                               bounds={"format": fmt, "entry": ename, "dmax": dm, "arguments": ("double: " + ("every value with |v| < 1000 (incl. denormals, -0.0)", "+inf", "-inf", "NaN", "1000 <= |v| < 999999999")[sel]) if isfloat else ("decimal: |v| < 1000 symbolic" if sel == 0 else "decimal: extreme value #%d of the type" % sel) if decimal else "symbolic (full width)",
                                       "%s argument": "<= %d chars, exact object, may be NULL" % SL, "* width/precision": "-12..12 / -2..12"}))
    return out
