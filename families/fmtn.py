"""C09 for the entry points that delegate to libc (harness/h_fmtn.c + models/fmt_models.c)."""
from engine.jobs import Job

SUP = ["src/str/vsnprintf_s.c", "src/wchar/wcstombs_s.c", "src/str/safe_str_constraint.c", "src/ignore_handler_s.c", "src/str/strnlen_s.c", "src/wchar/wcsnlen_s.c"]
ROWS = [
    # name, file, wide, scanf, call
    ("vprintf_s", "src/io/vprintf_s.c", 0, 0, "n_vprintf(fmt, &N)"),
    ("sscanf_s", "src/io/sscanf_s.c", 0, 1, "sscanf_s(inbuf, fmt, &N)"),
    ("vsscanf_s", "src/io/vsscanf_s.c", 0, 1, "n_vsscanf(fmt, &N)"),
    ("fscanf_s", "src/io/fscanf_s.c", 0, 1, "fscanf_s(VH_STREAM, fmt, &N)"),
    ("vfscanf_s", "src/io/vfscanf_s.c", 0, 1, "n_vfscanf(fmt, &N)"),
    ("scanf_s", "src/io/scanf_s.c", 0, 1, "scanf_s(fmt, &N)"),
    ("vscanf_s", "src/io/vscanf_s.c", 0, 1, "n_vscanf(fmt, &N)"),
    ("swprintf_s", "src/wchar/swprintf_s.c", 1, 0, "_swprintf_s_chk(wdest, 8, BOS_UNKNOWN, fmt, &N)"),
    ("vswprintf_s", "src/wchar/vswprintf_s.c", 1, 0, "w_vswprintf(fmt, &N)"),
    ("snwprintf_s", "src/wchar/snwprintf_s.c", 1, 0, "_snwprintf_s_chk(wdest, 8, BOS_UNKNOWN, fmt, &N)"),
    ("vsnwprintf_s", "src/wchar/vsnwprintf_s.c", 1, 0, "w_vsnwprintf(fmt, &N)"),
    ("fwprintf_s", "src/wchar/fwprintf_s.c", 1, 0, "fwprintf_s(VH_STREAM, fmt, &N)"),
    ("vfwprintf_s", "src/wchar/vfwprintf_s.c", 1, 0, "w_vfwprintf(fmt, &N)"),
    ("wprintf_s", "src/wchar/wprintf_s.c", 1, 0, "wprintf_s(fmt, &N)"),
    ("vwprintf_s", "src/wchar/vwprintf_s.c", 1, 0, "w_vwprintf(fmt, &N)"),
    ("swscanf_s", "src/wchar/swscanf_s.c", 1, 1, "swscanf_s(inbuf, fmt, &N)"),
    ("vswscanf_s", "src/wchar/vswscanf_s.c", 1, 1, "w_vswscanf(fmt, &N)"),
    ("fwscanf_s", "src/wchar/fwscanf_s.c", 1, 1, "fwscanf_s(VH_STREAM, fmt, &N)"),
    ("vfwscanf_s", "src/wchar/vfwscanf_s.c", 1, 1, "w_vfwscanf(fmt, &N)"),
    ("wscanf_s", "src/wchar/wscanf_s.c", 1, 1, "wscanf_s(fmt, &N)"),
    ("vwscanf_s", "src/wchar/vwscanf_s.c", 1, 1, "w_vwscanf(fmt, &N)"),
]
NARROW = ["src/io/vprintf_s.c", "src/io/vfprintf_s.c", "src/io/vsscanf_s.c", "src/io/vfscanf_s.c", "src/io/vscanf_s.c"]
WIDEF = ["src/wchar/vswprintf_s.c", "src/wchar/vsnwprintf_s.c", "src/wchar/vfwprintf_s.c", "src/wchar/vwprintf_s.c",
         "src/wchar/vswscanf_s.c", "src/wchar/vfwscanf_s.c", "src/wchar/vwscanf_s.c"]


def jobs(prop, tier, only_fn=None):
    out = []
    if prop == "C02":
        # the %n pre-scan (shared scanners of safeclib_private.h) and each entry's own reads of the format: format = exact object
        names = ("vprintf_s", "sscanf_s", "swprintf_s", "swscanf_s") if tier == "quick" else tuple(r[0] for r in ROWS)
        for name, f, wide, sc, call in ROWS:
            if name not in names or (only_fn and name != only_fn):
                continue
            files = sorted(set([f] + (WIDEF if wide else NARROW) + SUP))
            for flen in ((1, 2, 3) if tier == "quick" else (1, 2, 3, 4, 5)):
                out.append(Job("%s.C02.fmt%d" % (name, flen), "C02", "h_fmtn.c", files,
                               defines=["-DWIDE=%d" % wide, "-DSCANF=%d" % sc, "-DFL=%d" % flen, "-DFLEN=%d" % flen, "-DRB=%d" % (flen + 1), "-DCALL=%s" % call] + (["-DVH_MEMSET_WORD"] if wide else []),
                               models=("libc_models.c", "fmt_models.c"), native_models=("fmt_models.c",), object_bits=10, unwind_default=flen + 3, fn=name, memchecks=True, cbmc_flags=["--no-signed-overflow-check"],
                               unwind_rules=[(r"vh_ref_has_n", flen + 4), (r"^memset\.", 40), (r"^(strcat|strlen|strcpy)\.", 48)],
                               bounds={"format": "exact object of %d symbolic characters (22-symbol alphabet) + terminator" % flen, "libc": "contract model"}, timeout=300))
        return out
    if prop != "C09":
        return out
    for name, f, wide, sc, call in ROWS:
        if only_fn and name != only_fn:
            continue
        # printf grammar has flag x width x precision interplay (e.g. "%-0-n" needs 5 characters): one more character than scanf
        FL = (5 if not sc else 4) if tier == "quick" else 7
        files = sorted(set([f] + (WIDEF if wide else NARROW) + SUP))
        out.append(Job("%s.C09.fl%d" % (name, FL), "C09", "h_fmtn.c", files,
                       defines=["-DWIDE=%d" % wide, "-DSCANF=%d" % sc, "-DFL=%d" % FL, "-DRB=%d" % (FL + 1), "-DCALL=%s" % call] + (["-DVH_MEMSET_WORD"] if wide else []),
                       models=("libc_models.c", "fmt_models.c"), native_models=("fmt_models.c",), object_bits=10, unwind_default=FL + 2, fn=name,
                       unwind_rules=[(r"vh_ref_has_n", FL + 3), (r"^memset\.", 40), (r"^(strcat|strlen|strcpy)\.", 48)],
                       bounds={"format": "fully symbolic, <= %d characters over a 22-symbol alphabet (%% n l h 5 * . d a space $ [ ] Z 1 s 0 - + # ' I)" % FL,
                               "libc": "contract model with independent reference directive parser"}, timeout=300 if tier == "quick" else 1800))
    return out
