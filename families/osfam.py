"""os / io string producers that delegate to libc (harness/h_os.c, models/os_models.c):
getenv_s, gets_s, strerror_s, asctime_s, ctime_s  -  C01 C02 (exact objects, pointer checks) C03 C04 C05 C06 C08."""
from engine.jobs import Job

SUP = ["src/str/safe_str_constraint.c", "src/ignore_handler_s.c", "src/str/strnlen_s.c", "src/str/strcpy_s.c",
       "src/str/strncpy_s.c", "src/str/strcat_s.c"]
ROWS = [("getenv_s", "src/os/getenv_s.c", 1), ("gets_s", "src/io/gets_s.c", 2), ("strerror_s", "src/str/strerror_s.c", 3),
        ("asctime_s", "src/os/asctime_s.c", 4), ("ctime_s", "src/os/ctime_s.c", 5)]
PROPS = ("C01", "C02", "C03", "C04", "C05", "C06", "C08")


def jobs(prop, tier, only_fn=None):
    out = []
    if prop not in PROPS:
        return out
    for name, f, fk in ROWS:
        if only_fn and name != only_fn:
            continue
        if prop == "C08" and fk not in (1, 2):
            continue  # C08 names the environment and line-input functions only
        extra = {}
        if fk in (4, 5):
            geos = [(26, 26), (28, 26)] if tier == "quick" else [(26, 26), (27, 26), (30, 26), (121, 26)]
            for g in list(geos):  # dmax sliced: concrete = object size; plus the guard slice (rejected sizes, symbolic)
                extra[g] = ["-DFIX_DMAX=%d" % g[0]]
            # rejected sizes: boundary values concretely; the symbolic guard slice (every dmax < 26 or > object) in thorough
            for k, dm in enumerate(("0", "1", "25", "27", "(RSIZE_MAX_STR+1)", "SIZE_MAX")):
                geos.append((26, 20 + k))
                extra[(26, 20 + k)] = ["-DFIX_DMAX=%s" % dm]
            if tier != "quick":
                geos.append((27, 25))
                extra[(27, 25)] = ["-DGUARD_ONLY=26"]
        elif fk == 3:
            # errnum slices: the libc branch (symbolic message), the shortest and the longest of safeclib's own messages
            geos = [(1, 6), (4, 6), (6, 6)] if tier == "quick" else [(d, 8) for d in range(1, 10)]
            own = [(4, "ESNULLP"), (9, "ESNULLP"), (10, "ESNULLP")] if tier == "quick" else \
                [(d, e) for d in (1, 3, 4, 8, 9, 12) for e in ("ESNULLP", "ESNOTFND")] + [(d, "ESLEMAX") for d in (5, 24, 25, 26)]
            for d, e in own:
                geos.append((d, 3))
                extra[(d, 3)] = ["-DERRSEL=%s" % e]
        else:
            geos = [(1, 7), (2, 7), (4, 7), (6, 7)] if tier == "quick" else [(d, 9) for d in range(1, 9)]
        variants = ["slack"] + (["noslack"] if prop in ("C01", "C03", "C04") and tier != "quick" else [])
        for variant in variants:
            for dobj, vn in geos:
                tag = "".join(extra.get((dobj, vn), [])).replace("-DERRSEL=", "").replace("-DFIX_DMAX=", "d").replace("-DGUARD_ONLY=", "guard").replace("(RSIZE_MAX_STR+1)", "rmax1")
                out.append(Job("%s.%s.%s.o%d%s" % (name, prop, variant, dobj, "." + tag if tag else ""), prop, "h_os.c", [f] + SUP, variant=variant,
                               defines=["-DFK=%d" % fk, "-DDOBJ=%d" % dobj, "-DVN=%d" % vn] + extra.get((dobj, vn), []) +
                               (["-DVAL_PLAIN"] if fk in (4, 5) else []),
                               models=("libc_models.c", "os_models.c"), native_models=("os_models.c",),
                               unwind_default=max(dobj, vn) + 3, memchecks=prop in ("C01", "C02"), fn=name,
                               bounds={"dest object": dobj, "dmax": "symbolic (truthful)", "producer's string": "<= %d symbolic characters" % (vn - 1),
                                       "prior dest": "symbolic", "libc producers": "models/os_models.c"},
                               timeout=300))
    return out
