"""C20: allocation failure and leaks (harness/h_alloc.c; library sources compiled with malloc/realloc/free wrapped)."""
from engine.jobs import Job

WRAP = ["-Dmalloc=vh_malloc", "-Drealloc=vh_realloc", "-Dfree=vh_free"]
ENGINE = ["src/str/vsnprintf_s.c", "src/str/snprintf_s.c", "src/str/safe_str_constraint.c", "src/str/strnlen_s.c", "src/ignore_handler_s.c",
          "src/wchar/wcsnlen_s.c", "src/wchar/wcstombs_s.c"]
FOLD = ["src/extwchar/wcsicmp_s.c", "src/extwchar/wcsnatcmp_s.c", "src/extwchar/wcsfc_s.c", "src/extwchar/towfc_s.c", "src/extwchar/towctrans.c",
        "src/extwchar/wcsnorm_s.c", "src/extwchar/wcscmp_s.c", "src/str/safe_str_constraint.c", "src/str/strnlen_s.c", "src/ignore_handler_s.c",
        "src/wchar/wcsnlen_s.c", "src/wchar/wcscpy_s.c", "src/wchar/wcscat_s.c", "src/mem/safe_mem_constraint.c", "src/mem/mem_primitives_lib.c",
        "src/mem/memcpy_s.c", "src/wchar/wmemcpy_s.c"]
WIDE = {"swprintf_s": ("src/wchar/swprintf_s.c", "_swprintf_s_chk(dest, 520, BOS_UNKNOWN, L\"%d\", 5)", None),
        "snwprintf_s": ("src/wchar/snwprintf_s.c", "_snwprintf_s_chk(dest, 520, BOS_UNKNOWN, L\"%d\", 5)", None),
        "vswprintf_s": ("src/wchar/vswprintf_s.c", "w_v(dest, 520, L\"%d\", 5)", "_vswprintf_s_chk(d, n, BOS_UNKNOWN, fmt, ap)"),
        "vsnwprintf_s": ("src/wchar/vsnwprintf_s.c", "w_v(dest, 520, L\"%d\", 5)", "_vsnwprintf_s_chk(d, n, BOS_UNKNOWN, fmt, ap)")}


def jobs(prop, tier, only_fn=None):
    out = []
    if prop != "C20":
        return out
    common = dict(memchecks=True, timeout=600, mem_gb=12)
    plan = []
    for tag, w0, w1 in (("empty", 0, 0), ("a", 0x61, 0), ("euro_a", 0x20AC, 0x61), ("a_surrogate", 0x61, 0xD800), ("e9", 0xE9, 0)):
        plan.append(("snprintf_s.ls.%s" % tag, 1, ENGINE, ["-DW0=%d" % w0, "-DW1=%d" % w1], ("libc_models.c", "printf_models.c", "conv_models.c"), 14, None))
        plan.append(("snprintf_s.x_ls_y_d.%s" % tag, 2, ENGINE, ["-DW0=%d" % w0, "-DW1=%d" % w1], ("libc_models.c", "printf_models.c", "conv_models.c"), 14, None))
    plan += [
            ("snprintf_s.Lf_z", 3, ENGINE, ["-DSUBFMT=\"%Lfz\"", "-DSUBARG=(long double)1.5"], ("libc_models.c", "printf_models.c", "conv_models.c", "float_models.c"), 14, None),
            ("snprintf_s.a_z", 3, ENGINE, ["-DSUBFMT=\"%az\"", "-DSUBARG=(double)1.5"], ("libc_models.c", "printf_models.c", "conv_models.c", "float_models.c"), 14, None),
            ("wcsicmp_s", 4, FOLD, ["-DVH_MEMSET_WORD"], ("libc_models.c", "wide_models.c"), 24, 16),
            ("wcsnorm_s.reorder.fits", 7, FOLD, ["-DVH_MEMSET_WORD", "-DNMARKS=12", "-DNDMAX=16"], ("libc_models.c", "wide_models.c"), 18, 16),
            ("wcsnorm_s.reorder.nospace", 7, FOLD, ["-DVH_MEMSET_WORD", "-DNMARKS=12", "-DNDMAX=12"], ("libc_models.c", "wide_models.c"), 18, 16),
            ("wcsnorm_s.heapscratch.nfd", 8, FOLD, ["-DVH_MEMSET_WORD", "-DNBASE=126", "-DNMARKS=12", "-DNDMAX=144", "-DNMODE=WCSNORM_NFD"], ("libc_models.c", "wide_models.c"), 150, 16),
            ] + ([("wcsnatcmp_s", 5, FOLD, ["-DVH_MEMSET_WORD"], ("libc_models.c", "wide_models.c"), 24, 16)] if tier != "quick" else [])
    for name, (f, call, callv) in WIDE.items():
        if name in ("snwprintf_s", "vsnwprintf_s"):
            continue  # the truncating variants clear a symbolic range of the 520-element dest: no verdict within 12 GB (DESIGN C20)
        plan.append((name + ".probe", 6, [f, "src/str/safe_str_constraint.c", "src/ignore_handler_s.c", "src/str/strnlen_s.c", "src/wchar/wcsnlen_s.c"],
                     ["-DWCALL=%s" % call, "-DVH_MEMSET_WORD", "-DVH_PRINTF_RET_SMALL"] + (["-DWCALLV=%s" % callv] if callv else ["-DWCALLV=0"]),
                     ("libc_models.c", "fmt_models.c"), 8, None))
    for (name, scen, files, defs, models, unw, obits) in plan:
        fn = name.split(".")[0]
        if only_fn and fn != only_fn:
            continue
        cm = dict(common)
        if scen == 8:
            if tier == "quick":
                continue  # no verdict within 600 s with pointer checks on: thorough tier only, without them
            cm["memchecks"] = False
            cm["timeout"] = 900  # measured: no verdict in 2400 s either; reported as inconclusive, never as holding
        if scen == 6:
            cm["memchecks"] = False  # 520-element clears under pointer checks exhaust memory; the vswprintf model asserts its buffer
        out.append(Job("%s.C20" % name, "C20", "h_alloc.c", files, defines=["-DSCEN=%d" % scen] + defs, repo_defines=WRAP, models=models,
                       unwind_default=unw, unwind_rules=[(r"^safec_ntoa", 34), (r"^memcpy\.", 700 if scen == 8 else 210), (r"^memset\.", 530 if scen == 6 else 600 if scen == 8 else 40), (r"^(strcat|strlen)\.", 48)], fn=fn, object_bits=obits,
                       bounds={"scenario": name, "failing allocations": "any subset of the first 8 requests (symbolic mask)",
                               "inputs": "concrete wide strings (empty, ASCII, multibyte, unconvertible) / concrete operands"}, **cm))
    return out
