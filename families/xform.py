"""In-place transforms and field copies of src/extstr (+ wcsset_s, wcsnset_s): harness/h_xform.c.
C01 C02 (exact objects, pointer checks) C03 C04 C05 C06 C08."""
from engine.jobs import Job

SUP = ["src/str/safe_str_constraint.c", "src/ignore_handler_s.c", "src/str/strnlen_s.c", "src/wchar/wcsnlen_s.c"]
ROWS = [
    ("strljustify_s", "src/extstr/strljustify_s.c", "char", 1, "_strljustify_s_chk(dest,dmax,destbos)"),
    ("strremovews_s", "src/extstr/strremovews_s.c", "char", 2, "_strremovews_s_chk(dest,dmax,destbos)"),
    ("strnterminate_s", "src/extstr/strnterminate_s.c", "char", 3, "_strnterminate_s_chk(dest,dmax,destbos)"),
    ("strset_s", "src/extstr/strset_s.c", "char", 4, "_strset_s_chk(dest,dmax,value,destbos)"),
    ("strnset_s", "src/extstr/strnset_s.c", "char", 5, "_strnset_s_chk(dest,dmax,value,n,destbos)"),
    ("strzero_s", "src/extstr/strzero_s.c", "char", 6, "_strzero_s_chk(dest,dmax,destbos)"),
    ("strtolowercase_s", "src/extstr/strtolowercase_s.c", "char", 7, "_strtolowercase_s_chk(dest,dmax,destbos)"),
    ("strtouppercase_s", "src/extstr/strtouppercase_s.c", "char", 8, "_strtouppercase_s_chk(dest,dmax,destbos)"),
    ("strcpyfld_s", "src/extstr/strcpyfld_s.c", "char", 9, "_strcpyfld_s_chk(dest,dmax,src,n,destbos)"),
    ("strcpyfldin_s", "src/extstr/strcpyfldin_s.c", "char", 10, "_strcpyfldin_s_chk(dest,dmax,src,n,destbos)"),
    ("strcpyfldout_s", "src/extstr/strcpyfldout_s.c", "char", 11, "_strcpyfldout_s_chk(dest,dmax,src,n,destbos)"),
    ("wcsset_s", "src/extwchar/wcsset_s.c", "wchar_t", 4, "_wcsset_s_chk(dest,dmax,(wchar_t)value,destbos)"),
    ("wcsnset_s", "src/extwchar/wcsnset_s.c", "wchar_t", 5, "_wcsnset_s_chk(dest,dmax,(wchar_t)value,n,destbos)"),
    ("wcslwr_s", "src/extwchar/wcslwr_s.c", "wchar_t", 7, "_wcslwr_s_chk(dest,dmax,destbos)"),
    ("wcsupr_s", "src/extwchar/wcsupr_s.c", "wchar_t", 8, "_wcsupr_s_chk(dest,dmax,destbos)"),
]
WIDE_CASE = ("wcslwr_s", "wcsupr_s")
PROPS = ("C01", "C02", "C03", "C04", "C05", "C06", "C08")


def jobs(prop, tier, only_fn=None):
    out = []
    if prop not in PROPS:
        return out
    for name, f, T, xk, call in ROWS:
        if only_fn and name != only_fn:
            continue
        if prop == "C03" and xk not in (1, 2, 3, 11):
            continue
        if prop == "C04" and xk < 9:
            continue
        if prop == "C08" and xk not in (4, 5, 6):
            continue
        if prop == "C06" and xk == 6:
            pass
        wide = T != "char"
        dobjs = [1, 2, 4] if tier == "quick" else [1, 2, 3, 4, 5, 6]
        if wide:
            dobjs = [1, 3] if tier == "quick" else [1, 2, 3, 4]
        geos = [(d, 3 if tier == "quick" else 4, []) for d in dobjs]
        if xk >= 9:
            geos = [(d, s, ["-DFIX_ORDER=%d" % o]) for (d, s, _) in geos for o in (0, 1)]
            # across the 0x20 switch of the field clearing
            geos += [(40, 2, ["-DFIX_DMAX=40", "-DFIX_ORDER=0"])]
        variants = ["slack"] + (["noslack"] if prop in ("C01", "C03", "C04") and tier != "quick" else [])
        for variant in variants:
            for dobj, sobj, extra in geos:
                tag = "".join(extra).replace("-DFIX_ORDER=", ".o").replace("-DFIX_DMAX=", ".D")
                out.append(Job("%s.%s.%s.d%d%s" % (name, prop, variant, dobj, tag), prop, "h_xform.c", [f] + SUP + (["src/extwchar/towctrans.c"] if name in WIDE_CASE else []), variant=variant,
                               defines=["-DXK=%d" % xk, "-DT=%s" % T, "-DDOBJ=%d" % dobj, "-DSOBJ=%d" % sobj, "-DCALL=%s" % call,
                                        "-DRMAX=%s" % ("RSIZE_MAX_WSTR" if wide else "RSIZE_MAX_STR")] + extra +
                               (["-DVH_MEMSET_WORD"] if wide else []) + (["-DASCII_ONLY", "-DZERO_OK"] if name in WIDE_CASE else []),
                               models=("libc_models.c", "wide_models.c") if name in WIDE_CASE else ("libc_models.c",),
                               unwind_default=max(dobj, sobj) + 3, memchecks=prop in ("C01", "C02"), fn=name,
                               bounds={"dest object": dobj, "src object": sobj if xk >= 9 else None, "dmax/slen/n/value": "symbolic (truthful)",
                                       "contents": "symbolic"},
                               timeout=300))
    return out
