"""C10 (+C02 via exact objects): read-only query functions (harness/h_query.c)."""
from engine.jobs import Job

SUP = ["src/str/safe_str_constraint.c", "src/mem/safe_mem_constraint.c", "src/ignore_handler_s.c", "src/str/strnlen_s.c", "src/wchar/wcsnlen_s.c"]
ROWS = [
    ("strstr_s", "src/extstr/strstr_s.c", "char", "QK_STRSTR", "_strstr_s_chk(dest,dmax,src,slen,&res,destbos,srcbos)"),
    ("strcasestr_s", "src/extstr/strcasestr_s.c", "char", "QK_CASESTR", "_strcasestr_s_chk(dest,dmax,src,slen,&res,destbos,srcbos)"),
    ("wcsstr_s", "src/extwchar/wcsstr_s.c", "wchar_t", "QK_STRSTR", "_wcsstr_s_chk(dest,dmax,src,slen,&res,destbos,srcbos)"),
    ("strcspn_s", "src/extstr/strcspn_s.c", "char", "QK_CSPN", "_strcspn_s_chk(dest,dmax,src,slen,&count,destbos,srcbos)"),
    ("strspn_s", "src/extstr/strspn_s.c", "char", "QK_SPN", "_strspn_s_chk(dest,dmax,src,slen,&count,destbos,srcbos)"),
    ("strchr_s", "src/extstr/strchr_s.c", "char", "QK_CHR", "_strchr_s_chk(dest,dmax,ch,&res,destbos)"),
    ("strrchr_s", "src/extstr/strrchr_s.c", "char", "QK_RCHR", "_strrchr_s_chk(dest,dmax,ch,&res,destbos)"),
    ("strfirstchar_s", "src/extstr/strfirstchar_s.c", "char", "QK_FIRSTCHAR", "_strfirstchar_s_chk(dest,dmax,(char)ch,&res,destbos)"),
    ("strlastchar_s", "src/extstr/strlastchar_s.c", "char", "QK_LASTCHAR", "_strlastchar_s_chk(dest,dmax,(char)ch,&res,destbos)"),
    ("strcmp_s", "src/extstr/strcmp_s.c", "char", "QK_STRCMP", "_strcmp_s_chk(dest,dmax,src,&cmp,destbos,srcbos)"),
    ("memcmp_s", "src/extmem/memcmp_s.c", "unsigned char", "QK_MEMCMP", "_memcmp_s_chk(dest,dmax,src,slen,&cmp,destbos,srcbos)"),
    ("memchr_s", "src/extmem/memchr_s.c", "unsigned char", "QK_MEMCHR", "_memchr_s_chk(dest,dmax,ch,(void**)&res,destbos)"),
    ("memrchr_s", "src/extmem/memrchr_s.c", "unsigned char", "QK_MEMRCHR", "_memrchr_s_chk(dest,dmax,ch,(void**)&res,destbos)"),
    ("strnlen_s", "src/str/strnlen_s.c", "char", "QK_NLEN", "_strnlen_s_chk(dest,dmax,destbos)"),
    ("wcsnlen_s", "src/wchar/wcsnlen_s.c", "wchar_t", "QK_NLEN", "_wcsnlen_s_chk(dest,dmax,destbos)"),
    ("strprefix_s", "src/extstr/strprefix_s.c", "char", "QK_PREFIX", "_strprefix_s_chk(dest,dmax,src,destbos)"),
    ("strisdigit_s", "src/extstr/strisdigit_s.c", "char", "QK_ISDIGIT", "_strisdigit_s_chk(dest,dmax,destbos)"),
    ("strcasecmp_s", "src/extstr/strcasecmp_s.c", "char", "QK_CASECMP", "_strcasecmp_s_chk(dest,dmax,src,&cmp,destbos)", ["-DFULLBYTES"]),
    ("strcmpfld_s", "src/extstr/strcmpfld_s.c", "char", "QK_CMPFLD", "_strcmpfld_s_chk(dest,dmax,src,&cmp,destbos)", ["-DFULLBYTES"]),
    ("strfirstdiff_s", "src/extstr/strfirstdiff_s.c", "char", "QK_FIRSTDIFF", "_strfirstdiff_s_chk(dest,dmax,src,&count,destbos)", ["-DFULLBYTES"]),
    ("strfirstsame_s", "src/extstr/strfirstsame_s.c", "char", "QK_FIRSTSAME", "_strfirstsame_s_chk(dest,dmax,src,&count,destbos)", ["-DFULLBYTES"]),
    ("strlastdiff_s", "src/extstr/strlastdiff_s.c", "char", "QK_LASTDIFF", "_strlastdiff_s_chk(dest,dmax,src,&count,destbos)", ["-DFULLBYTES"]),
    ("strlastsame_s", "src/extstr/strlastsame_s.c", "char", "QK_LASTSAME", "_strlastsame_s_chk(dest,dmax,src,&count,destbos)", ["-DFULLBYTES"]),
    ("strpbrk_s", "src/extstr/strpbrk_s.c", "char", "QK_PBRK", "_strpbrk_s_chk(dest,dmax,src,slen,&res,destbos,srcbos)", []),
    ("strisalphanumeric_s", "src/extstr/strisalphanumeric_s.c", "char", "QK_CLASS", "_strisalphanumeric_s_chk(dest,dmax,destbos)", ["-DFULLBYTES", "-DCLSK=1"]),
    ("strisascii_s", "src/extstr/strisascii_s.c", "char", "QK_CLASS", "_strisascii_s_chk(dest,dmax,destbos)", ["-DFULLBYTES", "-DCLSK=2"]),
    ("strishex_s", "src/extstr/strishex_s.c", "char", "QK_CLASS", "_strishex_s_chk(dest,dmax,destbos)", ["-DFULLBYTES", "-DCLSK=3"]),
    ("strislowercase_s", "src/extstr/strislowercase_s.c", "char", "QK_CLASS", "_strislowercase_s_chk(dest,dmax,destbos)", ["-DFULLBYTES", "-DCLSK=4"]),
    ("strisuppercase_s", "src/extstr/strisuppercase_s.c", "char", "QK_CLASS", "_strisuppercase_s_chk(dest,dmax,destbos)", ["-DFULLBYTES", "-DCLSK=5"]),
    ("strismixedcase_s", "src/extstr/strismixedcase_s.c", "char", "QK_CLASS", "_strismixedcase_s_chk(dest,dmax,destbos)", ["-DFULLBYTES", "-DCLSK=6"]),
    ("wcscmp_s", "src/extwchar/wcscmp_s.c", "wchar_t", "QK_WCMP", "_wcscmp_s_chk(dest,dmax,src,slen,&cmp,destbos,srcbos)",
     ["-DWLIM=(dmax<slen?dmax:slen)"]),
    ("wcsncmp_s", "src/extwchar/wcsncmp_s.c", "wchar_t", "QK_WCMP", "_wcsncmp_s_chk(dest,dmax,src,slen,cnt,&cmp,destbos,srcbos)",
     ["-DWLIM=((dmax<slen?dmax:slen)<cnt?(dmax<slen?dmax:slen):cnt)"]),
    ("wmemcmp_s", "src/extwchar/wmemcmp_s.c", "wchar_t", "QK_WCMP", "_wmemcmp_s_chk(dest,dmax,src,slen,&cmp,destbos,srcbos)",
     ["-DWLIM=slen", "-DWSTOPNUL=0"]),
    ("memcmp16_s", "src/extmem/memcmp16_s.c", "uint16_t", "QK_WCMP", "_memcmp16_s_chk(dest,dmax,src,slen,&cmp,destbos,srcbos)",
     ["-DWLIM=slen", "-DWSTOPNUL=0"]),
    ("memcmp32_s", "src/extmem/memcmp32_s.c", "uint32_t", "QK_WCMP", "_memcmp32_s_chk(dest,dmax,src,slen,&cmp,destbos,srcbos)",
     ["-DWLIM=slen", "-DWSTOPNUL=0"]),
]
EXTRA = {"strrchr_s": ["src/extmem/memrchr_s.c"], "strcasestr_s": []}


# C05 (harness/h_qviol.c): per-function exceptions to the "must report" clauses, each from the function's documentation
NOREP = {"strnlen_s": ["-DNOREP_DNULL", "-DNOREP_DZERO"], "wcsnlen_s": ["-DNOREP_DNULL", "-DNOREP_DZERO"]}
RK1 = ("QK_NLEN", "QK_ISDIGIT", "QK_CLASS")


def viol_jobs(tier, only_fn=None):
    out = []
    for row in ROWS:
        name, f, T, qk, call = row[:5]
        xdefs = [d for d in (row[5] if len(row) > 5 else []) if not d.startswith("-DFULLBYTES") and not d.startswith("-DCLSK")]
        if only_fn and name != only_fn:
            continue
        files = sorted(set([f] + SUP + EXTRA.get(name, [])))
        out.append(Job("%s.C05.args" % name, "C05", "h_qviol.c", files,
                       defines=["-DT=%s" % T, "-DDN=3", "-DSN=3", "-DCALL=%s" % call, "-DRK=%d" % (1 if qk in RK1 else 0)] + xdefs + NOREP.get(name, []),
                       unwind_default=6, memchecks=False, fn=name,
                       bounds={"dest/src objects": 3, "dmax/slen": "arbitrary (truthful)", "NULL operands, src == dest": "symbolic"}, timeout=300))
    return out


def jobs(prop, tier, only_fn=None):
    out = []
    if prop == "C05":
        return viol_jobs(tier, only_fn)
    if prop not in ("C10", "C02"):
        return out
    for row in ROWS:
        name, f, T, qk, call = row[:5]
        xdefs = list(row[5]) if len(row) > 5 else []
        if only_fn and name != only_fn:
            continue
        geos = [(4, 3)] if tier == "quick" else [(4, 3), (6, 4), (5, 5)]
        if T in ("wchar_t", "uint32_t", "uint16_t") and tier == "quick":
            geos = [(3, 3)]
        if name.startswith("mem") and T == "unsigned char" and prop == "C10":
            geos = geos + [(9, 9)]  # word-at-a-time comparisons need whole aligned words and a tail
        if qk in ("QK_STRSTR", "QK_CASESTR") and prop == "C10" and tier == "quick" and T == "char":
            geos = geos + [(5, 4)]  # a self-overlapping needle of 3 inside a haystack of 4 ("aab" in "aaab": wrong skip-ahead)
        for (dn, sn) in geos:
            files = sorted(set([f] + SUP + EXTRA.get(name, [])))
            out.append(Job("%s.%s.d%d.s%d" % (name, prop, dn, sn), prop, "h_query.c", files,
                           defines=["-DT=%s" % T, "-DQK=%s" % qk, "-DDN=%d" % dn, "-DSN=%d" % sn, "-DCALL=%s" % call] + xdefs, unwind_default=max(dn, sn) + 3,
                           memchecks=True, fn=name,
                           bounds={"dest object": dn, "src object": sn, "dmax/slen": "symbolic", "terminator positions": "symbolic",
                                   "alphabet": "NUL a b A 1 0xE9", "objects": "exact size (guard objects)"}, timeout=300))
    return out
