"""C14: strtok_s / wcstok_s histories (harness/h_tok.c)."""
from engine.jobs import Job

SUPPORT = ["src/str/safe_str_constraint.c", "src/ignore_handler_s.c", "src/str/strnlen_s.c"]
ROWS = [("strtok_s", "src/str/strtok_s.c", "char", "_strtok_s_chk"), ("wcstok_s", "src/wchar/wcstok_s.c", "wchar_t", "_wcstok_s_chk")]


def jobs(prop, tier, only_fn=None):
    out = []
    if prop != "C14":
        return out
    quick = tier == "quick"
    for name, f, T, sym in ROWS:
        if only_fn and name != only_fn:
            continue
        cfgs = [(4, 4, 2), (5, 3, 1)] if quick else [(4, 4, 2), (5, 5, 2), (6, 6, 2), (7, 4, 3)]
        for (N, K, DL) in cfgs:
            for dmax in range(1, N + 1):
                out.append(Job("%s.C14.N%d.K%d.DL%d.d%d" % (name, N, K, DL, dmax), "C14", "h_tok.c", [f] + SUPPORT,
                               defines=["-DT=%s" % T, "-DTOK=%s" % sym, "-DNMAX=%d" % N, "-DK=%d" % K, "-DDL=%d" % DL, "-DFIX_DMAX=%d" % dmax],
                               unwind_default=max(N, DL) + 3, fn=name,
                               bounds={"string object": N + 1, "dmax": dmax, "calls": K, "delimiter set": "<= %d chars, new per call" % DL,
                                       "alphabet": "NUL a b , 0xA7"}, timeout=300 if quick else 1200))
        # the STRTOK_DELIM_MAX_LEN edge: delimiter sets of 16 and 17 characters, one-character strings
        for dl in (16, 17):
            out.append(Job("%s.C14.delim%d" % (name, dl), "C14", "h_tokdl.c", [f] + SUPPORT,
                           defines=["-DT=%s" % T, "-DTOK=%s" % sym, "-DDLEN=%d" % dl], unwind_default=dl + 3, fn=name,
                           bounds={"delimiter set length": dl, "string": "2 symbolic chars + NUL"}, timeout=300))
    return out
