"""C16: qsort_s / bsearch_s (harness/h_sort.c)."""
from engine.jobs import Job

SUPPORT = ["src/mem/safe_mem_constraint.c", "src/ignore_handler_s.c"]


def jobs(prop, tier, only_fn=None):
    out = []
    if prop != "C16":
        return out
    quick = tier == "quick"
    if not only_fn or only_fn == "qsort_s":
        geo = [(n, 1, 2) for n in range(0, 8)] + [(3, 2, 4), (4, 3, 3), (5, 2, 3)]
        if not quick:
            geo += [(n, 1, 2) for n in range(8, 12)] + [(n, 2, 3) for n in (6, 7)] + [(3, 13, 3), (2, 257, 2), (4, 8, 4), (6, 1, 4), (7, 1, 3)]
        for (n, sz, keys) in geo:
            out.append(Job("qsort_s.C16.n%d.s%d.k%d" % (n, sz, keys), "C16", "h_sort.c", ["src/misc/qsort_s.c"] + SUPPORT,
                           defines=["-DNMEMB=%d" % n, "-DESIZE=%d" % sz, "-DKEYS=%d" % keys],
                           unwind_default=max(n + 3, 8),
                           unwind_rules=[(r"^memcpy\.", min(sz, 256) + 2), (r"^cycle\.", max(8, sz // 256 + 2)),
                                         (r"^(sift|trinkle)\.", 8), (r"^qsort_musl\.0$", 12)],
                           retry_unwind=max(n + 8, 16), memchecks=True, fn="qsort_s", object_bits=10, harness_unwind=max(400, n * sz + 10),
                           bounds={"nmemb": n, "size": sz, "keys": "symbolic over %d values" % keys, "payload": "symbolic"},
                           timeout=300 if quick else 1800, mem_gb=12))
    if not only_fn or only_fn == "bsearch_s":
        geo = [(n, 1) for n in range(0, 7)] + [(5, 3), (6, 12)]
        if not quick:
            geo += [(n, 1) for n in range(7, 17)] + [(9, 4), (16, 2), (3, 257)]
        for (n, sz) in geo:
            out.append(Job("bsearch_s.C16.n%d.s%d" % (n, sz), "C16", "h_sort.c", ["src/misc/bsearch_s.c"] + SUPPORT,
                           defines=["-DIS_BSEARCH", "-DNMEMB=%d" % n, "-DESIZE=%d" % sz, "-DKEYS=4"], unwind_default=n + 3,
                           memchecks=True, fn="bsearch_s",
                           bounds={"nmemb": n, "size": sz, "keys": "sorted, symbolic over 4 values; key over 5 values"},
                           timeout=300))
    return out
