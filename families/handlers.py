"""C13: constraint-handler registration (harness/h_handlers.c #includes the two real TUs)."""
from engine.jobs import Job

FILES = ["src/ignore_handler_s.c", "src/str/strcpy_s.c", "src/mem/memcpy_s.c", "src/mem/mem_primitives_lib.c", "src/str/strnlen_s.c"]


def tls_flags():
    """Which of the thrd_* state variables the compiled real TUs declare thread-local (from the symbol table)."""
    import json, os
    from engine import core
    flags = []
    for rel, var, name in (("src/str/safe_str_constraint.c", "thrd_str_handler", "TLS_STR"),
                           ("src/mem/safe_mem_constraint.c", "thrd_mem_handler", "TLS_MEM")):
        tl = 1
        try:
            gb = core.compile_repo_obj(rel)
            r = core.run(["cbmc", "--show-symbol-table", "--json-ui", gb], timeout=120)
            js = json.loads(r["out"])
            for item in js:
                if "symbolTable" in item:
                    for k, v in item["symbolTable"].items():
                        if k.split("::")[-1] == var or v.get("baseName") == var:
                            tl = 1 if v.get("isThreadLocal") else 0
        except Exception:
            pass
        flags.append("-D%s=%d" % (name, tl))
    return flags


def jobs(prop, tier, only_fn=None):
    if prop != "C13":
        return []
    out = [Job("handlers.C13.step", "C13", "h_handlers.c", FILES, defines=["-DMODE_STEP", "-DK=1"], unwind_default=4,
               fn="constraint_handlers", bounds={"mode": "one operation from an arbitrary state of the 4 registration variables",
                                                 "handler values": "NULL, default, H1..H3", "operations": 6}, timeout=300)]
    tls = tls_flags()
    for k in ((4, 6) if tier == "quick" else (4, 6, 8, 10)):
        out.append(Job("handlers.C13.hist.k%d" % k, "C13", "h_handlers.c", FILES, defines=["-DMODE_HIST", "-DK=%d" % k] + tls,
                       unwind_default=4, fn="constraint_handlers",
                       bounds={"mode": "history", "main thread operations": k, "second thread": "every operation runs as thread 0 or 1 (symbolic); TLS variables switched per thread",
                               "threads": 2, "tls": tls}, timeout=600))
    return out
