"""C15 (+C01/C03/C04/C08 clauses): multibyte <-> wide converters (harness/h_conv.c, models/conv_models.c)."""
from engine.jobs import Job

SUP = ["src/str/safe_str_constraint.c", "src/ignore_handler_s.c", "src/str/strnlen_s.c", "src/wchar/wcsnlen_s.c"]
ROWS = [("mbstowcs_s", "src/wchar/mbstowcs_s.c", 1), ("mbsrtowcs_s", "src/wchar/mbsrtowcs_s.c", 2), ("wcstombs_s", "src/wchar/wcstombs_s.c", 3),
        ("wcsrtombs_s", "src/wchar/wcsrtombs_s.c", 4), ("wcrtomb_s", "src/wchar/wcrtomb_s.c", 5), ("wctomb_s", "src/wchar/wctomb_s.c", 6)]
PROPS = ("C01", "C03", "C04", "C08", "C15")


def jobs(prop, tier, only_fn=None):
    out = []
    if prop not in PROPS:
        return out
    dms = [1, 2, 4, 6] if tier == "quick" else [1, 2, 3, 4, 5, 6, 8, 10]
    for name, f, kind in ROWS:
        if only_fn and name != only_fn:
            continue
        variants = ["slack"] + (["noslack"] if prop in ("C03", "C04") and tier != "quick" else [])
        for variant in variants:
            for dm in dms:
                wide_dest = kind in (1, 2)
                out.append(Job("%s.%s.%s.d%d" % (name, prop, variant, dm), prop, "h_conv.c", [f] + SUP, variant=variant,
                               defines=["-DKIND=%d" % kind, "-DFIX_DMAX=%d" % dm] + (["-DVH_MEMSET_WORD"] if wide_dest else []),
                               models=("libc_models.c", "conv_models.c"), unwind_default=20,
                               unwind_rules=[(r"^memset\.", 14 if wide_dest else 50)], fn=name,
                               bounds={"dmax": dm, "source": "<= 3 characters (wide) / 7 bytes (multibyte) over an alphabet with 1-4 byte UTF-8, invalid "
                                       "sequences, surrogate and > U+10FFFF", "len": "symbolic <= 14", "locale": "symbolic: C or C.UTF-8",
                                       "errno before the call": "symbolic", "dest": "NULL or red-zoned object with symbolic garbage"},
                               timeout=300))
    return out
