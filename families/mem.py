"""Memory copy / move / fill family (harness/h_mem.c)."""
from engine.jobs import Job

SUPPORT = ["src/mem/mem_primitives_lib.c", "src/mem/safe_mem_constraint.c", "src/str/safe_str_constraint.c",
           "src/str/strnlen_s.c", "src/ignore_handler_s.c"]

ROWS = [
    # name, file, kind, DU, SU, call
    ("memcpy_s", "src/mem/memcpy_s.c", "K_MCPY", 1, 1, "_memcpy_s_chk(dest,dmax,src,slen,destbos,srcbos)"),
    ("memmove_s", "src/mem/memmove_s.c", "K_MMOVE", 1, 1, "_memmove_s_chk(dest,dmax,src,slen,destbos,srcbos)"),
    ("memcpy16_s", "src/extmem/memcpy16_s.c", "K_MCPY", 1, 2, "_memcpy16_s_chk((uint16_t*)dest,dmax,(const uint16_t*)src,slen,destbos,srcbos)"),
    ("memcpy32_s", "src/extmem/memcpy32_s.c", "K_MCPY", 1, 4, "_memcpy32_s_chk((uint32_t*)dest,dmax,(const uint32_t*)src,slen,destbos,srcbos)"),
    ("memmove16_s", "src/extmem/memmove16_s.c", "K_MMOVE", 1, 2, "_memmove16_s_chk((uint16_t*)dest,dmax,(const uint16_t*)src,slen,destbos,srcbos)"),
    ("memmove32_s", "src/extmem/memmove32_s.c", "K_MMOVE", 1, 4, "_memmove32_s_chk((uint32_t*)dest,dmax,(const uint32_t*)src,slen,destbos,srcbos)"),
    ("wmemcpy_s", "src/wchar/wmemcpy_s.c", "K_MCPY", 4, 4, "_wmemcpy_s_chk((wchar_t*)dest,dmax,(const wchar_t*)src,slen,destbos,srcbos)"),
    ("wmemmove_s", "src/wchar/wmemmove_s.c", "K_MMOVE", 4, 4, "_wmemmove_s_chk((wchar_t*)dest,dmax,(const wchar_t*)src,slen,destbos,srcbos)"),
    ("memset_s", "src/mem/memset_s.c", "K_MSET", 1, 1, "_memset_s_chk(dest,dmax,(int)value,slen,destbos)"),
    ("memset16_s", "src/extmem/memset16_s.c", "K_MSET", 1, 2, "_memset16_s_chk((uint16_t*)dest,dmax,(uint16_t)value,slen,destbos)"),
    ("memset32_s", "src/extmem/memset32_s.c", "K_MSET", 1, 4, "_memset32_s_chk((uint32_t*)dest,dmax,(uint32_t)value,slen,destbos)"),
    ("memzero_s", "src/extmem/memzero_s.c", "K_MZERO", 1, 1, "_memzero_s_chk(dest,dmax,destbos)"),
    ("memzero16_s", "src/extmem/memzero16_s.c", "K_MZERO", 2, 2, "_memzero16_s_chk((uint16_t*)dest,dmax,destbos)"),
    ("memzero32_s", "src/extmem/memzero32_s.c", "K_MZERO", 4, 4, "_memzero32_s_chk((uint32_t*)dest,dmax,destbos)"),
    ("memccpy_s", "src/extmem/memccpy_s.c", "K_MCCPY", 1, 1, "_memccpy_s_chk(dest,dmax,src,(int)value,slen,destbos,srcbos)"),
]

PROPS = ("C01", "C02", "C04", "C05", "C06", "C07")


def _defs(kind, DU, SU, call, NB, extra=()):
    return ["-DKIND=%s" % kind, "-DDU=%d" % DU, "-DSU=%d" % SU, "-DRMAXB=RSIZE_MAX_MEM", "-DNB=%d" % NB, "-DCALL=%s" % call] + list(extra)


def prim_rules(LB):
    """Per-loop bounds of the word-unrolled primitives, derived from the code (DESIGN 2.3): alignment prologue and
    tail <= 8 (the 64-bit mem_prim_move prologue may copy all LB bytes), 16-way unrolled bodies <= LB/64 + 2."""
    body = LB // 64 + 2
    return [(r"^mem_prim_set\.(0|2)$", 9), (r"^mem_prim_set\.1$", body),
            (r"^mem_prim_set(16|32)\.", LB // 16 + 3), (r"^mem_prim_move\.(0|3)$", max(LB, 8) + 2),
            (r"^mem_prim_move\.(1|4)$", LB // 8 + 2), (r"^mem_prim_move\.(2|5)$", 9),
            (r"^mem_prim_move(8|16|32)\.", LB // 16 + 3), (r"^wmem_", body)]


def jobs(prop, tier, only_fn=None):
    out = []
    if prop not in PROPS:
        return out
    quick = tier == "quick"
    for (name, f, kind, DU, SU, call) in ROWS:
        if only_fn and name != only_fn:
            continue
        files = [f] + SUPPORT
        copy = kind in ("K_MCPY", "K_MMOVE", "K_MCCPY")
        if prop == "C04" and not copy:
            continue
        if prop == "C07" and kind not in ("K_MCPY", "K_MMOVE", "K_MCCPY"):
            continue
        unit = max(DU, SU)
        if prop == "C07" or (copy and prop in ("C01", "C05")):
            # one arena, concrete geometry: length L (units), src fixed in the middle, dest at every offset around it
            lens = [2, 9] if quick else [1, 2, 3, 5, 8, 9, 17]
            for L in lens:
                LB = L * SU
                NB = LB + 2
                s0 = LB + 8 + (8 - LB % 8) % 8  # src 8-aligned in the arena
                offs = range(-(LB + SU), LB + 2 * SU, SU) if not quick else range(-(LB + SU), LB + 2 * SU, SU)
                for rel in offs:
                    d0 = s0 + rel
                    for pad in ((0,) if quick else (0, 1)):
                        dm = (LB // DU) + (0 if quick else 0)
                        extra = ["-DLAYOUT_A", "-DFIX_DOFF=%d" % d0, "-DFIX_SOFF=%d" % s0, "-DFIX_DMAX=%d" % dm, "-DFIX_SLEN=%d" % L,
                                 "-DNA=%d" % (3 * LB + 24), "-DPAD=%d" % pad]
                        out.append(Job("%s.%s.A.L%d.r%d.p%d" % (name, prop, L, rel, pad), prop, "h_mem.c", files,
                                       defines=_defs(kind, DU, SU, call, NB, extra), unwind_default=LB + 3, unwind_rules=prim_rules(LB), retry_unwind=LB + 12,
                                       fn=name, bounds={"layout": "A", "len_units": L, "dest_minus_src_bytes": rel, "pad": pad,
                                                        "slen": L, "contents": "symbolic"},
                                       timeout=120 if quick else 600))
            if prop == "C07":
                continue
        if prop == "C02":
            NBs = [4 * unit] if quick else [4 * unit, 9 * unit]
            for NB in NBs:
                geos = [(NB, NB), (NB, NB - unit), (NB - unit, NB), (unit, NB), (NB, unit)] if quick else \
                       [(d, s) for d in range(0, NB + 1, unit) for s in range(0, NB + 1, unit)]
                for (d, s) in geos:
                    for order in (0, 1):
                        extra = ["-DEXACT", "-DFIX_DOBJ=%d" % d, "-DFIX_SOBJ=%d" % s, "-DFIX_ORDER=%d" % order]
                        out.append(Job("%s.%s.X.d%d.s%d.o%d" % (name, prop, d, s, order), prop, "h_mem.c", files,
                                       defines=_defs(kind, DU, SU, call, NB, extra), unwind_default=NB + 3, unwind_rules=prim_rules(NB), retry_unwind=NB + 12,
                                       memchecks=True, fn=name,
                                       bounds={"layout": "G-exact", "dobj_bytes": d, "sobj_bytes": s, "order": order,
                                               "dmax": "symbolic", "slen": "symbolic"},
                                       timeout=120 if quick else 600))
            continue
        # fixed objects: concrete dmax (bytes), symbolic slen/contents/value; guard slice with symbolic dmax
        sizes = [2, 9] if quick else [1, 2, 3, 4, 7, 8, 9, 15, 16, 17, 24, 33, 65]
        if quick and unit > 1 and prop == "C06":
            sizes = [2, 9, 17]  # the 16-way unrolled bodies of the 16/32-bit primitives need >= 16 elements
        for B in sizes:
            LB = B * unit
            NB = LB + unit
            pads = ((0, 0), (1, 4), (3, 3)) if quick else ((0, 0), (1, 1), (3, 3), (7, 7), (1, 4), (0, 5), (6, 2), (4, 0))
            if not copy:
                pads = sorted({(a, a) for (a, b) in pads} | {(b, b) for (a, b) in pads})
            for (pad, spad) in pads:
                if quick and B == 17 and (pad % unit or spad % unit):
                    continue  # element-misaligned operands of the 16/32-bit functions: CBMC and the native run disagree (DESIGN 7.4); aligned only
                for order in (0, 1) if copy else (0,):
                    extra = ["-DFIX_DMAX=%d" % (LB // DU), "-DPAD=%d" % pad, "-DSPAD=%d" % spad, "-DFIX_ORDER=%d" % order, "-DNO_NULLS"]
                    if quick and B == 17 and unit == 4:
                        extra.append("-DFIX_SLEN=17")  # 68 bytes with a symbolic length: no verdict in 120 s; the length is concrete here
                    out.append(Job("%s.%s.F.b%d.p%d_%d.o%d" % (name, prop, LB, pad, spad, order), prop, "h_mem.c", files,
                                   defines=_defs(kind, DU, SU, call, NB, extra), unwind_default=LB + 3, unwind_rules=prim_rules(LB), retry_unwind=LB + 12, fn=name,
                                   bounds={"layout": "G-fixed", "dmax_bytes": LB, "pad": pad, "order": order, "slen": "symbolic",
                                           "contents": "symbolic", "value": "symbolic"},
                                   timeout=120 if quick else 600))
        NB = unit
        for order in (0, 1) if copy else (0,):
            extra = ["-DGUARD_ONLY", "-DFIX_ORDER=%d" % order]
            # memchecks on, loop bounds beyond the object size: a clear/copy driven by an unvalidated huge size runs out
            # of the (tiny) objects within the bound and is a failed pointer check with a trace, not an unwinding failure
            out.append(Job("%s.%s.F.guard.o%d" % (name, prop, order), prop, "h_mem.c", files,
                           defines=_defs(kind, DU, SU, call, NB, extra), unwind_default=NB + 40, unwind_rules=[(r"^_memccpy_s_chk\.", NB + 3)] + prim_rules(NB + 40),
                           memchecks=True, fn=name,
                           bounds={"layout": "G-fixed", "dmax": "symbolic in {0} u (dobj,2^64) or NULL operands", "NB": NB},
                           timeout=120 if quick else 600))
    return out
