/* fmt_models.c - contract model of the libc formatted I/O functions that the delegating printf_s/scanf_s entry points
 * call (vprintf vfprintf vswprintf vfwprintf vwprintf vsscanf vfscanf vscanf vswscanf vfwscanf vwscanf):
 * "performs a store through an argument iff the format contains an n conversion".  The format is parsed by a reference
 * directive parser written from C17 7.21.6.1/.2 and 7.29.2 (+ glibc's documented extensions ', I, q, Z, m, n$),
 * independent of the library's own scanner.  The model records the call and the would-be store; it returns an arbitrary int. */
#include <stdarg.h>
#include <stddef.h>
#include <stdio.h>
#include <wchar.h>
int vh_libc_called, vh_n_store;
int nondet_int(void);

#ifndef RB
#define RB 12
#endif
#define GEN_REF(NAME, CH, L)                                                                                           \
    int NAME(const CH *f, int is_scanf) {                                                                              \
        unsigned i = 0;                                                                                                \
        for (unsigned guard = 0; guard < RB; guard++) {                                                                \
            if (f[i] == 0) return 0;                                                                                   \
            if (f[i] != L'%') { i++; continue; }                                                                       \
            i++;                                                                                                       \
            if (f[i] == L'%') { i++; continue; }                                                                       \
            if (is_scanf) {                                                                                            \
                /* glibc: digits first are n$ or already the width; the flags * ' I in any order, repeated; width */    \
                int gotw = 0;                                                                                          \
                if (f[i] >= L'0' && f[i] <= L'9') {                                                                    \
                    for (unsigned g = 0; g < RB; g++) if (f[i] >= L'0' && f[i] <= L'9') i++;                           \
                    if (f[i] == L'$') i++; else gotw = 1;                                                              \
                }                                                                                                      \
                if (!gotw) {                                                                                           \
                    for (unsigned g = 0; g < RB; g++) if (f[i] == L'*' || f[i] == L'\'' || f[i] == L'I') i++;          \
                    for (unsigned g = 0; g < RB; g++) if (f[i] >= L'0' && f[i] <= L'9') i++;                           \
                }                                                                                                      \
                if (f[i] == L'm') i++;                                                                                 \
            } else {                                                                                                   \
                for (unsigned g = 0; g < RB; g++) if (f[i] >= L'0' && f[i] <= L'9') i++; /* n$ or width */             \
                if (f[i] == L'$') i++;                                                                                 \
                for (unsigned g = 0; g < RB; g++)                                                                      \
                    if (f[i] == L'-' || f[i] == L'+' || f[i] == L' ' || f[i] == L'#' || f[i] == L'0' || f[i] == L'\'' || f[i] == L'I') i++; \
                if (f[i] == L'*') { i++; for (unsigned g = 0; g < RB; g++) if (f[i] >= L'0' && f[i] <= L'9') i++; if (f[i] == L'$') i++; } \
                else for (unsigned g = 0; g < RB; g++) if (f[i] >= L'0' && f[i] <= L'9') i++;                           \
                if (f[i] == L'.') {                                                                                    \
                    i++;                                                                                               \
                    if (f[i] == L'*') { i++; for (unsigned g = 0; g < RB; g++) if (f[i] >= L'0' && f[i] <= L'9') i++; if (f[i] == L'$') i++; } \
                    else for (unsigned g = 0; g < RB; g++) if (f[i] >= L'0' && f[i] <= L'9') i++;                       \
                }                                                                                                      \
            }                                                                                                          \
            /* length modifier */                                                                                      \
            if (f[i] == L'h') { i++; if (f[i] == L'h') i++; }                                                          \
            else if (f[i] == L'l') { i++; if (f[i] == L'l') i++; }                                                     \
            else if (f[i] == L'L' || f[i] == L'q' || f[i] == L'j' || f[i] == L'z' || f[i] == L'Z' || f[i] == L't') i++; \
            if (f[i] == L'n') return 1;                                                                                \
            if (is_scanf && !(f[i] == L'd' || f[i] == L'i' || f[i] == L'o' || f[i] == L'u' || f[i] == L'x' || f[i] == L'X' || \
                              f[i] == L'e' || f[i] == L'E' || f[i] == L'f' || f[i] == L'F' || f[i] == L'g' || f[i] == L'G' || \
                              f[i] == L'a' || f[i] == L'A' || f[i] == L'c' || f[i] == L's' || f[i] == L'S' || f[i] == L'C' || \
                              f[i] == L'p' || f[i] == L'[' || f[i] == L'%'))                                           \
                return 0; /* scanf: an invalid conversion specification ends the processing of the format */          \
            if (is_scanf && f[i] == L'[') {                                                                            \
                i++;                                                                                                   \
                if (f[i] == L'^') i++;                                                                                 \
                if (f[i] == L']') i++;                                                                                 \
                for (unsigned g = 0; g < RB; g++) if (f[i] != 0 && f[i] != L']') i++;                                  \
            }                                                                                                          \
            if (f[i] != 0) i++;                                                                                        \
        }                                                                                                              \
        return 0;                                                                                                      \
    }
GEN_REF(vh_ref_has_n, char, )
GEN_REF(vh_ref_has_n_w, wchar_t, L)

#if defined(VH_CBMC) && VH_CBMC
static int lib_n(const char *f, int sc) { vh_libc_called++; if (vh_ref_has_n(f, sc)) vh_n_store = 1; return nondet_int(); }
static int lib_w(const wchar_t *f, int sc) {
    vh_libc_called++;
    if (vh_ref_has_n_w(f, sc)) vh_n_store = 1;
    int r = nondet_int();
#ifdef VH_PRINTF_RET_SMALL
    __CPROVER_assume(r == -1 || (r >= 0 && r < 6)); /* C20 scenarios: a short text or the 'does not fit' indication */
#endif
    return r;
}
int vprintf(const char *f, va_list ap) { (void)ap; return lib_n(f, 0); }
int vfprintf(FILE *s, const char *f, va_list ap) { (void)s; (void)ap; return lib_n(f, 0); }
int vsscanf(const char *b, const char *f, va_list ap) { (void)b; (void)ap; return lib_n(f, 1); }
int vfscanf(FILE *s, const char *f, va_list ap) { (void)s; (void)ap; return lib_n(f, 1); }
int vscanf(const char *f, va_list ap) { (void)ap; return lib_n(f, 1); }
int vswprintf(wchar_t *d, size_t n, const wchar_t *f, va_list ap) { (void)ap; __CPROVER_assert(d != 0, "C20: NULL buffer (failed allocation) passed to vswprintf"); if (d && n) d[0] = 0; return lib_w(f, 0); }
int vfwprintf(FILE *s, const wchar_t *f, va_list ap) { (void)s; (void)ap; return lib_w(f, 0); }
int vwprintf(const wchar_t *f, va_list ap) { (void)ap; return lib_w(f, 0); }
int vswscanf(const wchar_t *b, const wchar_t *f, va_list ap) { (void)b; (void)ap; return lib_w(f, 1); }
int vfwscanf(FILE *s, const wchar_t *f, va_list ap) { (void)s; (void)ap; return lib_w(f, 1); }
int vwscanf(const wchar_t *f, va_list ap) { (void)ap; return lib_w(f, 1); }
int snprintf(char *s, size_t n, const char *f, ...) { (void)f; if (n) s[0] = 0; return 0; }
char *strerror(int e) { (void)e; return (char *)"err"; }
int feof(FILE *s) { (void)s; return nondet_int(); }
int ferror(FILE *s) { (void)s; return nondet_int(); }
#endif
