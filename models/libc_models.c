/* libc_models.c - explicit models of the libc functions safeclib calls.
 * CBMC's built-in memcpy returned a wrong value for symbolic sizes (see DESIGN 2.4), so every
 * function here is an explicit element loop.  Each model touches exactly the bytes its libc
 * counterpart is specified to touch, so an unbounded strlen() on an unterminated extent fails
 * CBMC's pointer check inside the model.
 * Also compiled natively with -DMODEL_PREFIX to diff against glibc (models/modelcheck.c).
 */
#include <stddef.h>
#include <stdint.h>
#include <wchar.h>

#ifdef MODEL_PREFIX
#define M(n) m_##n
#else
#define M(n) n
#endif

void *M(memcpy)(void *d, const void *s, size_t n) {
    unsigned char *dp = (unsigned char *)d;
    const unsigned char *sp = (const unsigned char *)s;
    for (size_t i = 0; i < n; i++)
        dp[i] = sp[i];
    return d;
}
void *M(memmove)(void *d, const void *s, size_t n) {
    unsigned char *dp = (unsigned char *)d;
    const unsigned char *sp = (const unsigned char *)s;
    if ((uintptr_t)dp <= (uintptr_t)sp) {
        for (size_t i = 0; i < n; i++)
            dp[i] = sp[i];
    } else {
        for (size_t i = n; i > 0; i--)
            dp[i - 1] = sp[i - 1];
    }
    return d;
}
void *M(memset)(void *d, int c, size_t n) {
    unsigned char *dp = (unsigned char *)d;
#if defined(VH_MEMSET_WORD)
    /* wide-character jobs (-DVH_MEMSET_WORD): every memset in the unit under test clears whole
       wchar_t elements; do it element-wise (byte stores at symbolic offsets into wchar_t objects
       made the wide concatenation harnesses run out of memory).  The precondition is asserted. */
    __CPROVER_assert((__CPROVER_POINTER_OFFSET(d) & 3) == 0, "MODEL: memset word-wise precondition (aligned)");
    {
        uint32_t w = (unsigned char)c * 0x01010101u;
        uint32_t *wp = (uint32_t *)d;
        size_t nw = n / 4;
        for (size_t i = 0; i < nw; i++)
            wp[i] = w;
        for (size_t j = 0; j < (n & 3); j++) /* a byte count that is not a whole number of elements */
            dp[nw * 4 + j] = (unsigned char)c;
        return d;
    }
#endif
    for (size_t i = 0; i < n; i++)
        dp[i] = (unsigned char)c;
    return d;
}
void M(explicit_bzero)(void *d, size_t n) {
    volatile unsigned char *dp = (volatile unsigned char *)d;
    for (size_t i = 0; i < n; i++)
        dp[i] = 0;
}
int M(memcmp)(const void *a, const void *b, size_t n) {
    const unsigned char *ap = (const unsigned char *)a, *bp = (const unsigned char *)b;
    for (size_t i = 0; i < n; i++)
        if (ap[i] != bp[i])
            return ap[i] < bp[i] ? -1 : 1;
    return 0;
}
void *M(memchr)(const void *s, int c, size_t n) {
    const unsigned char *p = (const unsigned char *)s;
    for (size_t i = 0; i < n; i++)
        if (p[i] == (unsigned char)c)
            return (void *)(p + i);
    return 0;
}
void *M(memrchr)(const void *s, int c, size_t n) {
    const unsigned char *p = (const unsigned char *)s;
    for (size_t i = n; i > 0; i--)
        if (p[i - 1] == (unsigned char)c)
            return (void *)(p + i - 1);
    return 0;
}
size_t M(strlen)(const char *s) {
    size_t i = 0;
    while (s[i])
        i++;
    return i;
}
size_t M(strnlen)(const char *s, size_t n) {
    size_t i = 0;
    while (i < n && s[i])
        i++;
    return i;
}
char *M(strchr)(const char *s, int c) {
    for (;; s++) {
        if (*s == (char)c)
            return (char *)s;
        if (!*s)
            return 0;
    }
}
char *M(strrchr)(const char *s, int c) {
    const char *r = 0;
    for (;; s++) {
        if (*s == (char)c)
            r = s;
        if (!*s)
            return (char *)r;
    }
}
char *M(strcpy)(char *d, const char *s) {
    size_t i = 0;
    for (;; i++) {
        d[i] = s[i];
        if (!s[i])
            break;
    }
    return d;
}
char *M(strcat)(char *d, const char *s) {
    size_t n = 0;
    while (d[n])
        n++;
    for (size_t i = 0;; i++) {
        d[n + i] = s[i];
        if (!s[i])
            break;
    }
    return d;
}
char *M(strstr)(const char *h, const char *n) {
    if (!*n)
        return (char *)h;
    for (; *h; h++) {
        size_t i = 0;
        while (n[i] && h[i] == n[i])
            i++;
        if (!n[i])
            return (char *)h;
        /* glibc may stop early; the standard only requires termination of both */
    }
    return 0;
}
size_t M(wcslen)(const wchar_t *s) {
    size_t i = 0;
    while (s[i])
        i++;
    return i;
}
wchar_t *M(wcsstr)(const wchar_t *h, const wchar_t *n) {
    if (!*n)
        return (wchar_t *)h;
    for (; *h; h++) {
        size_t i = 0;
        while (n[i] && h[i] == n[i])
            i++;
        if (!n[i])
            return (wchar_t *)h;
    }
    return 0;
}
wchar_t *M(wmemcpy)(wchar_t *d, const wchar_t *s, size_t n) {
    for (size_t i = 0; i < n; i++)
        d[i] = s[i];
    return d;
}
wchar_t *M(wmemset)(wchar_t *d, wchar_t c, size_t n) {
    for (size_t i = 0; i < n; i++)
        d[i] = c;
    return d;
}
int M(wmemcmp)(const wchar_t *a, const wchar_t *b, size_t n) {
    for (size_t i = 0; i < n; i++)
        if (a[i] != b[i])
            return a[i] < b[i] ? -1 : 1;
    return 0;
}

/* C locale character classes */
int M(isdigit)(int c) { return c >= '0' && c <= '9'; }
int M(isupper)(int c) { return c >= 'A' && c <= 'Z'; }
int M(islower)(int c) { return c >= 'a' && c <= 'z'; }
int M(isalpha)(int c) { return M(isupper)(c) || M(islower)(c); }
int M(isalnum)(int c) { return M(isalpha)(c) || M(isdigit)(c); }
int M(isxdigit)(int c) {
    return M(isdigit)(c) || (c >= 'a' && c <= 'f') || (c >= 'A' && c <= 'F');
}
int M(isspace)(int c) { return c == ' ' || (c >= '\t' && c <= '\r'); }
int M(isblank)(int c) { return c == ' ' || c == '\t'; }
int M(isprint)(int c) { return c >= 0x20 && c < 0x7f; }
int M(isgraph)(int c) { return c > 0x20 && c < 0x7f; }
int M(ispunct)(int c) { return M(isgraph)(c) && !M(isalnum)(c); }
int M(iscntrl)(int c) { return (c >= 0 && c < 0x20) || c == 0x7f; }
int M(isascii)(int c) { return (c & ~0x7f) == 0; }
int M(tolower)(int c) { return M(isupper)(c) ? c + 32 : c; }
int M(toupper)(int c) { return M(islower)(c) ? c - 32 : c; }

#ifndef MODEL_PREFIX
/* errno */
static int vh_errno;
int *__errno_location(void) { return &vh_errno; }

/* message formatting into local msg[] buffers of the bos_chk_warn helpers: text is no subject */
int sprintf(char *s, const char *f, ...) {
    (void)f;
    s[0] = 0;
    return 0;
}
#endif

/* qsort: insertion sort through the caller's comparator (any correct sort gives the same result for a strict weak order;
 * the library's use in wcsnorm_s sorts <= a dozen 16-byte records by (class, position), a total order) */
void M(qsort)(void *base, size_t n, size_t sz, int (*cmp)(const void *, const void *)) {
    unsigned char *b = (unsigned char *)base;
    for (size_t i = 1; i < n; i++)
        for (size_t j = i; j > 0; j--) {
            unsigned char *x = b + (j - 1) * sz, *y = b + j * sz;
            if (cmp(x, y) <= 0) break;
            for (size_t k = 0; k < sz; k++) { unsigned char t = x[k]; x[k] = y[k]; y[k] = t; }
        }
}
