/* os_models.c - environment of the os/io string producers (getenv_s, gets_s, strerror_s, asctime_s, ctime_s):
 * every libc producer returns the harness-chosen (symbolic) string; used by CBMC and, unchanged, by the native replay.
 *   getenv/secure_getenv : NULL or a pointer to vh_env_val (terminated, any length < its object)
 *   fgets/feof on stdin  : C semantics over the stream content vh_in_buf[0..vh_in_len) (at most n-1 characters, stops
 *                          behind a newline, NUL appended, NULL at end of file before any character or on a read error)
 *   strerror             : pointer to vh_errmsg (terminated)
 *   asctime_r/ctime_r    : NULL (errno EOVERFLOW) or the string vh_time_str (<= 25 characters + NUL) stored in buf */
#include <stddef.h>
#include <stdio.h>
#include <time.h>
#include <errno.h>
char vh_env_val[64];
int vh_env_found;
char vh_in_buf[64];
unsigned vh_in_len, vh_in_pos;
int vh_in_eof, vh_in_fail;
char vh_errmsg[64];
char vh_time_str[32];
int vh_time_fail;

char *secure_getenv(const char *name) { (void)name; return vh_env_found ? vh_env_val : (char *)0; }
char *getenv(const char *name) { (void)name; return vh_env_found ? vh_env_val : (char *)0; }

char *fgets(char *s, int n, FILE *fp) {
    (void)fp;
    if (n <= 0) return (char *)0;
    if (vh_in_fail) { errno = EIO; return (char *)0; }
    int i = 0;
    for (unsigned k = 0; k < 64; k++) {
        if (!(i < n - 1 && vh_in_pos < vh_in_len)) break;
        char c = vh_in_buf[vh_in_pos++];
        s[i++] = c;
        if (c == '\n') break;
    }
    if (i < n - 1 && (i == 0 || s[i - 1] != '\n')) vh_in_eof = 1; /* ran into the end of the stream */
    if (i == 0 && n > 1) return (char *)0;
    s[i] = 0;
    return s;
}
int feof(FILE *fp) { (void)fp; return vh_in_eof; }
int fgetc(FILE *fp) {
    (void)fp;
    if (vh_in_fail) { errno = EIO; return EOF; }
    if (vh_in_pos < vh_in_len) return (unsigned char)vh_in_buf[vh_in_pos++];
    vh_in_eof = 1;
    return EOF;
}
int getc(FILE *fp) { return fgetc(fp); }
int getchar(void) { return fgetc((FILE *)0); }
int ungetc(int c, FILE *fp) {
    (void)fp;
    if (c == EOF || vh_in_pos == 0) return EOF;
    vh_in_buf[--vh_in_pos] = (char)c;
    vh_in_eof = 0;
    return c;
}

char *strerror(int e) { (void)e; return vh_errmsg; }

static char *vh_time(char *buf) {
    if (vh_time_fail) { errno = EOVERFLOW; return (char *)0; }
    for (unsigned i = 0; i < 26; i++) {
        buf[i] = vh_time_str[i];
        if (!vh_time_str[i]) break;
    }
    return buf;
}
char *asctime_r(const struct tm *tm, char *buf) { (void)tm; return vh_time(buf); }
char *ctime_r(const time_t *t, char *buf) { (void)t; return vh_time(buf); }
