/* printf_models.c - environment of the formatted-output entry points.
 *  snprintf into the local msg[80] buffers of the engine: text of handler messages is no subject -> empty string.
 *  putchar / fputc: append to the capture buffer vh_cap (defined by the harness).
 *  wctomb / wcstombs / wcrtomb: reference UTF-8 encoder (locale flag vh_utf8: 0 = "C": only 0..127 convertible). */
#include <stddef.h>
#include <stdio.h>
#include <wchar.h>
#include <errno.h>
extern char vh_cap[];
extern unsigned vh_cap_n;
#ifndef DCAP
#define DCAP 32
#endif
int vh_io_fail; /* 1: the stream reports an error */

#if defined(VH_CBMC) && VH_CBMC
int snprintf(char *s, size_t n, const char *f, ...) {
    (void)f;
    if (n) s[0] = 0;
    return 0;
}
#endif
int putchar(int c) {
    if (vh_io_fail) return -1;
    if (vh_cap_n < DCAP) vh_cap[vh_cap_n] = (char)c;
    vh_cap_n++;
    return (unsigned char)c;
}
int fputc(int c, FILE *f) {
    (void)f;
    return putchar(c);
}

#if defined(VH_CBMC) && VH_CBMC
/* the harness streams are valid: fileno() of a valid stream is not negative */
int fileno(FILE *stream) { (void)stream; return 1; }
#endif
