/* printf_models.c - environment of the formatted-output entry points.
 *  snprintf into the local msg[80] buffers of the engine: text of handler messages is no subject -> empty string.
 *  putchar / fputc: append to the capture buffer vh_cap (defined by the harness).
 *  wctomb / wcstombs / wcrtomb: reference UTF-8 encoder (locale flag vh_utf8: 0 = "C": only 0..127 convertible). */
#include <stddef.h>
#include <stdio.h>
#include <wchar.h>
#include <errno.h>
extern char vh_cap[];
extern unsigned vh_cap_n;
#ifndef DCAP
#define DCAP 32
#endif
int vh_utf8 = 1;
int vh_io_fail; /* 1: the stream reports an error */

#if defined(VH_CBMC) && VH_CBMC
int snprintf(char *s, size_t n, const char *f, ...) {
    (void)f;
    if (n) s[0] = 0;
    return 0;
}
#endif
int putchar(int c) {
    if (vh_io_fail) return -1;
    if (vh_cap_n < DCAP) vh_cap[vh_cap_n] = (char)c;
    vh_cap_n++;
    return (unsigned char)c;
}
int fputc(int c, FILE *f) {
    (void)f;
    return putchar(c);
}
#if defined(VH_CBMC) && VH_CBMC
static int enc(char *s, unsigned long wc) {
    if (!vh_utf8) {
        if (wc > 127) return -1;
        s[0] = (char)wc;
        return 1;
    }
    if (wc < 0x80) { s[0] = (char)wc; return 1; }
    if (wc < 0x800) { s[0] = (char)(0xC0 | (wc >> 6)); s[1] = (char)(0x80 | (wc & 0x3F)); return 2; }
    if (wc >= 0xD800 && wc <= 0xDFFF) return -1;
    if (wc < 0x10000) { s[0] = (char)(0xE0 | (wc >> 12)); s[1] = (char)(0x80 | ((wc >> 6) & 0x3F)); s[2] = (char)(0x80 | (wc & 0x3F)); return 3; }
    if (wc < 0x110000) { s[0] = (char)(0xF0 | (wc >> 18)); s[1] = (char)(0x80 | ((wc >> 12) & 0x3F)); s[2] = (char)(0x80 | ((wc >> 6) & 0x3F)); s[3] = (char)(0x80 | (wc & 0x3F)); return 4; }
    return -1;
}
int wctomb(char *s, wchar_t wc) {
    char t[4];
    if (!s) return 0;
    int n = enc(t, (unsigned long)(unsigned)wc);
    if (n < 0) { errno = EILSEQ; return -1; }
    for (int i = 0; i < n; i++) s[i] = t[i];
    return n;
}
/* converts until the terminator or until n bytes would be exceeded; never writes more than n bytes */
size_t wcstombs(char *dest, const wchar_t *src, size_t n) {
    size_t o = 0;
    for (size_t i = 0;; i++) {
        char t[4];
        if (src[i] == 0) {
            if (dest && o < n) dest[o] = 0;
            return o;
        }
        int k = enc(t, (unsigned long)(unsigned)src[i]);
        if (k < 0) { errno = EILSEQ; return (size_t)-1; }
        if (dest) {
            if (o + (size_t)k > n) return o;
            for (int j = 0; j < k; j++) dest[o + j] = t[j];
        }
        o += (size_t)k;
    }
}
#endif
