/* wide_models.c - libc wide-character classification used by the folding code: C-locale behaviour for ASCII, arbitrary
 * but functional otherwise is not needed here (operands of the C20 scenarios are ASCII). */
#include <wchar.h>
#include <wctype.h>
int iswupper(wint_t c) { return c >= L'A' && c <= L'Z'; }
int iswlower(wint_t c) { return c >= L'a' && c <= L'z'; }
int iswdigit(wint_t c) { return c >= L'0' && c <= L'9'; }
int iswspace(wint_t c) { return c == L' ' || (c >= 9 && c <= 13); }
wint_t towlower(wint_t c) { return iswupper(c) ? c + 32 : c; }
wint_t towupper(wint_t c) { return iswlower(c) ? c - 32 : c; }
char *setlocale(int cat, const char *l) { (void)cat; (void)l; return (char *)"C"; }
