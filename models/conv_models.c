/* conv_models.c - reference UTF-8 codec standing for libc's multibyte/wide converters (DESIGN 2.4):
 * mbstowcs mbsrtowcs wcstombs wcsrtombs wcrtomb wctomb.  Locale flag vh_utf8: 1 = "C.UTF-8", 0 = "C" (only 0..127
 * convertible).  Each function writes at most n elements, returns the count or (size_t)-1 with errno = EILSEQ. */
#include <stddef.h>
#include <wchar.h>
#include <errno.h>
int vh_utf8 = 1;
static int enc(char *s, unsigned long wc) {
    if (!vh_utf8) {
        if (wc > 127) return -1;
        s[0] = (char)wc;
        return 1;
    }
    if (wc < 0x80) { s[0] = (char)wc; return 1; }
    if (wc < 0x800) { s[0] = (char)(0xC0 | (wc >> 6)); s[1] = (char)(0x80 | (wc & 0x3F)); return 2; }
    if (wc >= 0xD800 && wc <= 0xDFFF) return -1;
    if (wc < 0x10000) { s[0] = (char)(0xE0 | (wc >> 12)); s[1] = (char)(0x80 | ((wc >> 6) & 0x3F)); s[2] = (char)(0x80 | (wc & 0x3F)); return 3; }
    if (wc < 0x110000) { s[0] = (char)(0xF0 | (wc >> 18)); s[1] = (char)(0x80 | ((wc >> 12) & 0x3F)); s[2] = (char)(0x80 | ((wc >> 6) & 0x3F)); s[3] = (char)(0x80 | (wc & 0x3F)); return 4; }
    return -1;
}
int wctomb(char *s, wchar_t wc) {
    char t[4];
    if (!s) return 0;
    int n = enc(t, (unsigned long)(unsigned)wc);
    if (n < 0) { errno = EILSEQ; return -1; }
    for (int i = 0; i < n; i++) s[i] = t[i];
    return n;
}
/* converts until the terminator or until n bytes would be exceeded; never writes more than n bytes */
size_t wcstombs(char *dest, const wchar_t *src, size_t n) {
    size_t o = 0;
    for (size_t i = 0;; i++) {
        char t[4];
        if (src[i] == 0) {
            if (dest && o < n) dest[o] = 0;
            return o;
        }
        int k = enc(t, (unsigned long)(unsigned)src[i]);
        if (k < 0) { errno = EILSEQ; return (size_t)-1; }
        if (dest) {
            if (o + (size_t)k > n) return o;
            for (int j = 0; j < k; j++) dest[o + j] = t[j];
        }
        o += (size_t)k;
    }
}
/* decode one character from s (at most avail bytes looked at): returns byte count, 0 for NUL, -1 invalid */
static int dec(const char *s, unsigned long *wc) {
    unsigned char c = (unsigned char)s[0];
    if (c == 0) { *wc = 0; return 0; }
    if (c < 0x80) { *wc = c; return 1; }
    if (!vh_utf8) return -1;
    if (c >= 0xC2 && c <= 0xDF) {
        unsigned char c1 = (unsigned char)s[1];
        if ((c1 & 0xC0) != 0x80) return -1;
        *wc = ((unsigned long)(c & 0x1F) << 6) | (c1 & 0x3F);
        return 2;
    }
    if (c >= 0xE0 && c <= 0xEF) {
        unsigned char c1 = (unsigned char)s[1];
        if ((c1 & 0xC0) != 0x80) return -1;
        unsigned char c2 = (unsigned char)s[2];
        if ((c2 & 0xC0) != 0x80) return -1;
        *wc = ((unsigned long)(c & 0x0F) << 12) | ((unsigned long)(c1 & 0x3F) << 6) | (c2 & 0x3F);
        if (*wc < 0x800 || (*wc >= 0xD800 && *wc <= 0xDFFF)) return -1;
        return 3;
    }
    if (c >= 0xF0 && c <= 0xF4) {
        unsigned char c1 = (unsigned char)s[1];
        if ((c1 & 0xC0) != 0x80) return -1;
        unsigned char c2 = (unsigned char)s[2];
        if ((c2 & 0xC0) != 0x80) return -1;
        unsigned char c3 = (unsigned char)s[3];
        if ((c3 & 0xC0) != 0x80) return -1;
        *wc = ((unsigned long)(c & 0x07) << 18) | ((unsigned long)(c1 & 0x3F) << 12) | ((unsigned long)(c2 & 0x3F) << 6) | (c3 & 0x3F);
        if (*wc < 0x10000 || *wc > 0x10FFFF) return -1;
        return 4;
    }
    return -1;
}
size_t mbsrtowcs(wchar_t *dest, const char **srcp, size_t n, mbstate_t *ps) {
    const char *s = *srcp;
    size_t o = 0;
    (void)ps;
    for (;;) {
        unsigned long wc;
        if (dest && o >= n) { *srcp = s; return o; }
        int k = dec(s, &wc);
        if (k < 0) { errno = EILSEQ; if (dest) *srcp = s; return (size_t)-1; }
        if (k == 0) {
            if (dest) { dest[o] = 0; *srcp = 0; }
            return o;
        }
        if (dest) dest[o] = (wchar_t)wc;
        o++;
        s += k;
    }
}
size_t mbstowcs(wchar_t *dest, const char *src, size_t n) {
    const char *s = src;
    return mbsrtowcs(dest, &s, n, 0);
}
size_t wcsrtombs(char *dest, const wchar_t **srcp, size_t n, mbstate_t *ps) {
    const wchar_t *s = *srcp;
    size_t o = 0;
    (void)ps;
    for (;;) {
        char t[4];
        if (*s == 0) {
            if (dest) { if (o < n) dest[o] = 0; *srcp = 0; }
            return o;
        }
        int k = enc(t, (unsigned long)(unsigned)*s);
        if (k < 0) { errno = EILSEQ; if (dest) *srcp = s; return (size_t)-1; }
        if (dest) {
            if (o + (size_t)k > n) { *srcp = s; return o; }
            for (int j = 0; j < k; j++) dest[o + j] = t[j];
        }
        o += (size_t)k;
        s++;
    }
}
size_t wcrtomb(char *s, wchar_t wc, mbstate_t *ps) {
    char t[4];
    (void)ps;
    if (!s) return 1;
    int n = enc(t, (unsigned long)(unsigned)wc);
    if (n < 0) { errno = EILSEQ; return (size_t)-1; }
    for (int i = 0; i < n; i++) s[i] = t[i];
    return (size_t)n;
}
