/* nothing: malloc/realloc/free are CBMC's (allocation does not fail in these jobs) */
int vh_alloc_ok_dummy;
