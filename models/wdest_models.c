/* wdest_models.c - libc's vswprintf as the wide printf family sees it: the text libc would produce for the call is the
 * harness-chosen string vh_wout (vh_wout_len characters); vswprintf(d, n, ...) stores at most n elements: the whole text and
 * its terminator when they fit, else n-1 characters and a terminator with return value -1 (glibc).  Used by CBMC and natively. */
#include <stddef.h>
#include <stdarg.h>
#include <wchar.h>
wchar_t vh_wout[16];
unsigned vh_wout_len;
int vh_wout_fail; /* libc reports another error (EILSEQ ...) */
int vswprintf(wchar_t *d, size_t n, const wchar_t *f, va_list ap) {
    (void)f; (void)ap;
    if (vh_wout_fail) return -1;
    if (n == 0) return -1;
    if (vh_wout_len < n) {
        for (unsigned i = 0; i < 16; i++) if (i < vh_wout_len) d[i] = vh_wout[i];
        d[vh_wout_len] = 0;
        return (int)vh_wout_len;
    }
    for (unsigned i = 0; i < 16; i++) if (i + 1 < n) d[i] = vh_wout[i];
    d[n - 1] = 0;
    return -1;
}
