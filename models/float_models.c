/* float_models.c - libc snprintf as used by the engine for %Lf/%La/%a: returns an arbitrary short text */
#include <stddef.h>
int nondet_int(void);
int snprintf(char *s, size_t n, const char *f, ...) {
    (void)f;
    int k = nondet_int();
    __CPROVER_assume(k >= 0 && k < 8);
    for (int i = 0; i < 8; i++) if (i < k && (size_t)i + 1 < n) s[i] = '1';
    if (n) s[(size_t)k < n ? (size_t)k : n - 1] = 0;
    return k;
}
