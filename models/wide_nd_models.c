/* wide_nd_models.c - libc wide classification as an arbitrary function (C17: the 0/1 distinction of iswfc is libc's) */
#include <wchar.h>
#include <wctype.h>
int nondet_int(void);
int iswupper(wint_t c) { (void)c; return nondet_int() & 1; }
wint_t towlower(wint_t c) { return c; }
wint_t towupper(wint_t c) { return c; }
