#!/usr/bin/env python3
import json,sys
for p in sys.argv[1:]:
    v=json.load(open(p))
    print("==",p.split('/')[-1],v['job'],'|',v['description'])
    for k,x in v['inputs'].items():
        if isinstance(x,dict):
            vals=[x[str(i)] if str(i) in x else x.get(i) for i in sorted(map(int,x.keys()))]
            print("   ",k,'=',vals)
        else: print("   ",k,'=',x)
    for r in v.get('replay_result',{}).get('runs',[]):
        print("    run",r['mode'],r['rc'],r['hits'])
