#!/usr/bin/env python3
"""Regenerate MANIFEST.json from tools/manifest_src.py tables."""
import json, os, subprocess, sys
sys.path.insert(0, os.path.dirname(os.path.dirname(os.path.abspath(__file__))))
from tools import manifest_src as M
repo_fix = subprocess.run(["git", "-C", "/repo", "log", "--format=%H %s"], capture_output=True, text=True).stdout.splitlines()
hooks = [l.split()[0] for l in repo_fix if " hook:" in l or " verif-hook" in l]
man = {
 "version": 1,
 "setup_cmd": "python3 -m compileall -q engine families tools check >/dev/null 2>&1; command -v cbmc goto-cc goto-instrument gcc clang-14 >/dev/null && echo setup-ok",
 "hooks": {"guard": "RURBAN_SAFECLIB_VERIF", "enable": "no source hooks are needed: harnesses link the unmodified sources (goto-cc -DRURBAN_SAFECLIB_VERIF is passed but nothing in /repo tests it)",
           "baseline_off_cmd": "make -C /repo -k check", "source_commits": hooks, "add_only": True},
 "engines": M.ENGINES,
 "checks": [],
 "not_applicable": [],
 "notes": M.NOTES,
}
for pid in ["C%02d" % i for i in range(1, 21)]:
    c = M.CHECKS.get(pid)
    if c is None:
        man["not_applicable"].append({"property_id": pid, "reason": M.NA.get(pid, "no check built yet")})
        continue
    man["checks"].append({
        "property_id": pid,
        "quick_cmd": "./check %s --tier quick" % pid,
        "thorough_cmd": "./check %s --tier thorough" % pid,
        "evidence_file": "/verif/evidence/%s.json" % pid,
        "replay_cmd_template": "./check %s --replay {path}" % pid,
        "engine": c.get("engine", "cbmc-src"),
        "level_claimed": {"category": "model_checking", "text": c["text"], "design_ref": c.get("ref", "DESIGN.md section 4 " + pid)},
        "level_note": c["note"],
        "technique": c.get("technique", "bounded symbolic execution of the real C sources (goto-cc + CBMC 6.11, SAT), counterexamples replayed natively"),
    })
json.dump(man, open(os.path.join(os.path.dirname(os.path.dirname(os.path.abspath(__file__))), "MANIFEST.json"), "w"), indent=1)
print("checks:", [c["property_id"] for c in man["checks"]], "n/a:", [n["property_id"] for n in man["not_applicable"]])
