#!/bin/sh
# mkwt.sh <dir>: scratch git worktree of /repo (HEAD) with the generated autotools files copied in, configured and built
set -e
d=$1
git -C /repo worktree add --detach "$d" HEAD >/dev/null 2>&1
cd /repo
# generated build infrastructure (ignored by git): copy, but no objects
for f in configure Makefile.in aclocal.m4 config.h.in build-aux/compile build-aux/config.guess build-aux/config.sub build-aux/depcomp build-aux/install-sh build-aux/ltmain.sh build-aux/missing build-aux/test-driver src/Makefile.in tests/Makefile.in doc/Makefile.in; do
  [ -e "$f" ] && cp -p "$f" "$d/$f" || true
done
for f in $(find . -name Makefile.in -not -path './.git/*'); do mkdir -p "$d/$(dirname $f)"; cp -p "$f" "$d/$f"; done
for f in m4/*.m4; do cp -p "$f" "$d/$f" 2>/dev/null || true; done
cd "$d"
./configure >/dev/null 2>&1
make -j16 >/dev/null 2>&1
echo "worktree $d ready"
