#!/bin/sh
# run_seed.sh <seed-id> [check args...]: apply a seeded change to /repo, run the property's check, undo.
id=$1; shift
prop=$(echo $id | cut -d- -f1)
cd /repo && git diff --quiet || { echo "/repo dirty"; exit 2; }
git -C /repo apply /verif/seeded/$id/patch.diff || { echo "patch does not apply to current /repo"; exit 2; }
cd /verif && ./check ${PROP:-$prop} --no-evidence "$@" 2>&1 | grep -E "VIOLATION|^C[0-9][0-9] |violation:|KNOWN" | cut -c1-220
git -C /repo checkout -- .
