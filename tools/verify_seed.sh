#!/bin/sh
# verify_seed.sh <worktree> <seeddir> <seed-id> <property>: confirm a seeded change independently, then store it under /verif/seeded/<seed-id>
wt=$1; sd=$2; id=$3; prop=$4
cd "$wt" || exit 2
git checkout -q -- src include 2>/dev/null
git apply --check "$sd/patch.diff" || { echo "patch does not apply"; exit 2; }
git apply "$sd/patch.diff"
make -j16 >/dev/null 2>&1 || { echo "BUILD FAILED with patch"; git checkout -q -- src include; exit 2; }
res=$(make -k check -j16 2>&1 | grep -E "^# (PASS|FAIL|ERROR)" | tr '\n' ' ')
echo "tests with patch: $res"
extra=""
grep -q pthread "$sd/demo.c" && extra="-pthread"
grep -q "dlsym\|dlopen" "$sd/demo.c" && extra="$extra -ldl"
grep -q "__wrap_malloc" "$sd/demo.c" && extra="$extra -O0 -Wl,--wrap=malloc,--wrap=calloc,--wrap=realloc,--wrap=free"
gcc -O1 -I "$wt/include" -I "$wt" -I "$wt/src" "$sd/demo.c" "$wt/src/.libs/libsafec.a" -o "$sd/demo_p" $extra -lm 2>/dev/null || gcc -I "$wt/include" "$sd/demo.c" "$wt/src/.libs/libsafec.a" -o "$sd/demo_p" $extra -lm
"$sd/demo_p" >/dev/null 2>&1; rp=$?
git checkout -q -- src include
make -j16 >/dev/null 2>&1
gcc -O1 -I "$wt/include" -I "$wt" -I "$wt/src" "$sd/demo.c" "$wt/src/.libs/libsafec.a" -o "$sd/demo_c" $extra -lm 2>/dev/null || gcc -I "$wt/include" "$sd/demo.c" "$wt/src/.libs/libsafec.a" -o "$sd/demo_c" $extra -lm
"$sd/demo_c" >/dev/null 2>&1; rc=$?
echo "demo exit with patch: $rp, clean: $rc"
case "$res" in *"PASS:  127"*"FAIL:  0"*"ERROR: 0"*) ok=1;; *) ok=0;; esac
if [ $ok = 1 ] && [ $rp != 0 ] && [ $rc = 0 ]; then
  mkdir -p /verif/seeded/$id
  cp "$sd/patch.diff" "$sd/demo.c" /verif/seeded/$id/
  [ -f "$sd/README" ] && cp "$sd/README" /verif/seeded/$id/README
  python3 - "$id" "$prop" "$res" "$rp" "$rc" <<'PY'
import json,sys,os
id,prop,res,rp,rc=sys.argv[1:]
readme=""
p="/verif/seeded/%s/README"%id
if os.path.exists(p): readme=open(p).read()
json.dump({"id":id,"breaks_property":prop,"needs_to_manifest":readme.strip()[:1500],
 "verified":{"tests_with_patch":res.strip(),"demo_exit_with_patch":int(rp),"demo_exit_clean":int(rc),
 "how":"tools/verify_seed.sh: git apply in a scratch worktree, make, make -k check (127 pass), demo.c fails with the patch and passes without"},
 "detected_by":None},open("/verif/seeded/%s/meta.json"%id,"w"),indent=1)
PY
  echo "SEED OK -> /verif/seeded/$id"
else
  echo "SEED REJECTED"
fi
