#!/bin/sh
# runall.sh [tier]: run every claimed check, print one summary line each
tier=${1:-quick}
cd /verif
for p in $(python3 -c "import json; print(' '.join(c['property_id'] for c in json.load(open('MANIFEST.json'))['checks']))"); do
  s=$(date +%s)
  out=$(./check $p --tier $tier 2>&1); rc=$?
  e=$(date +%s)
  echo "$p rc=$rc $((e-s))s | $(echo "$out" | grep -E "^$p " | tail -1) | viol=$(echo "$out" | grep -c '^VIOLATION') known=$(echo "$out" | grep -c '^KNOWN-FINDING')"
done
