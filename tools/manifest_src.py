ENGINES = [
 {"name": "cbmc-src", "path": "/verif/check", "serves_properties": ["C01", "C02", "C03", "C04", "C05", "C06", "C07", "C08", "C13", "C14", "C16", "C19"],
  "kind_free_text": "goto-cc compiles the real /repo sources (repo config.h, pointer-order normalised copy) with a harness and explicit libc models; CBMC 6.11 (cadical) decides the assertions over all inputs inside the stated bounds; every counterexample is replayed against a native gcc build with guard pages"},
]
NOTES = "See DESIGN.md. All verdicts are bounded (bounds per job in the evidence files); known_findings.json lists genuine defects of the pinned tree that are recorded rather than repaired."
COMMON_NOTE = ("Trusted: CBMC/goto-cc, the libc models in /verif/models, the harness oracles in /verif/harness. Bounded: element counts, "
               "geometry slices and unwindings as listed per job in the evidence; outside: larger sizes, other build configurations, real glibc behind the models.")
CHECKS = {
 "C01": {"text": "For every encoded destination-writing entry point: no store outside dest[0..dmax) (frame condition over the whole red-zoned object and the source object) for all contents/lengths/NULL/huge sizes/known-or-unknown object size within the bounds, both slack configurations.", "note": COMMON_NOTE},
 "C03": {"text": "Every string-producing entry leaves a NUL within dmax on every return path, for arbitrary (also NUL-free) prior dest contents, within the bounds.", "note": COMMON_NOTE},
 "C04": {"text": "On every failing return dest[0]==0, no element holds data written by the call, full clear on the named paths (slack build), source unchanged.", "note": COMMON_NOTE},
 "C05": {"text": "Reference classification of the documented constraints vs. return code and a counting handler: exactly one invocation with the returned code iff a constraint is violated.", "note": COMMON_NOTE},
 "C06": {"text": "On success dest equals the reference result of the standard counterpart and a result that does not fit is rejected.", "note": COMMON_NOTE},
 "C08": {"text": "After success every element behind the terminator up to dmax is zero (slack build); terminator present (no-slack build).", "note": COMMON_NOTE},
}
CHECKS.update({
 "C02": {"text": "Every operand is an object of exactly its declared size (geometry sliced concretely, contents/lengths symbolic); CBMC's pointer checks on every dereference in the library and in the libc models are the faulting boundary; a failure counts when the native replay faults on a read next to a PROT_NONE page.", "note": COMMON_NOTE},
 "C07": {"text": "Source and destination inside one arena at every relative offset (symbolic for the string family, concrete slices for the word-unrolled memory primitives): disjoint operands behave normally, intersecting read/write ranges give ESOVRLP with dest cleared, memmove family equals a copy through a temporary.", "note": COMMON_NOTE},
 "C13": {"text": "One-step inductive check of the four real registration variables against a reference model (any state, any operation), plus bounded two-thread histories in which the thread-local variables (as declared in the compiled TU) are switched per executing thread.", "note": COMMON_NOTE + " The meaning of _Thread_local is trusted (CBMC refuses shared function pointers in threaded programs); which variables are thread-local is read from the goto binary on every run."},
 "C14": {"text": "Call histories of strtok_s/wcstok_s over symbolic strings and per-call delimiter sets against a reference tokenizer: pointers, terminators, only delimiter positions overwritten, *ptr/*dmaxp never reach past dmax, NULL forever after exhaustion; the 16/17 delimiter edge.", "note": COMMON_NOTE},
 "C16": {"text": "qsort_s (smoothsort) for concrete nmemb/size slices with symbolic keys and payload: ordered, permutation of whole elements, comparator sees only in-array element pointers and the caller's context; bsearch_s on sorted symbolic arrays: match returned iff one exists; exact-size guard object.", "note": COMMON_NOTE},
 "C19": {"text": "Result half: timingsafe_bcmp zero iff equal, timingsafe_memcmp sign of the first differing pair as unsigned char, for all contents of both regions (n sliced).", "note": COMMON_NOTE + " Data-independence half: see DESIGN (LLVM-IR executor)."},
})
NA = {}
