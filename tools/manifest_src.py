ENGINES = [
 {"name": "cbmc-src", "path": "/verif/check", "serves_properties": ["C01", "C03", "C04", "C05", "C06", "C08"],
  "kind_free_text": "goto-cc compiles the real /repo sources (repo config.h, pointer-order normalised copy) with a harness and explicit libc models; CBMC 6.11 (cadical) decides the assertions over all inputs inside the stated bounds; every counterexample is replayed against a native gcc build with guard pages"},
]
NOTES = "See DESIGN.md. All verdicts are bounded (bounds per job in the evidence files); known_findings.json lists genuine defects of the pinned tree that are recorded rather than repaired."
COMMON_NOTE = ("Trusted: CBMC/goto-cc, the libc models in /verif/models, the harness oracles in /verif/harness. Bounded: element counts, "
               "geometry slices and unwindings as listed per job in the evidence; outside: larger sizes, other build configurations, real glibc behind the models.")
CHECKS = {
 "C01": {"text": "For every encoded destination-writing entry point: no store outside dest[0..dmax) (frame condition over the whole red-zoned object and the source object) for all contents/lengths/NULL/huge sizes/known-or-unknown object size within the bounds, both slack configurations.", "note": COMMON_NOTE},
 "C03": {"text": "Every string-producing entry leaves a NUL within dmax on every return path, for arbitrary (also NUL-free) prior dest contents, within the bounds.", "note": COMMON_NOTE},
 "C04": {"text": "On every failing return dest[0]==0, no element holds data written by the call, full clear on the named paths (slack build), source unchanged.", "note": COMMON_NOTE},
 "C05": {"text": "Reference classification of the documented constraints vs. return code and a counting handler: exactly one invocation with the returned code iff a constraint is violated.", "note": COMMON_NOTE},
 "C06": {"text": "On success dest equals the reference result of the standard counterpart and a result that does not fit is rejected.", "note": COMMON_NOTE},
 "C08": {"text": "After success every element behind the terminator up to dmax is zero (slack build); terminator present (no-slack build).", "note": COMMON_NOTE},
}
NA = {}
